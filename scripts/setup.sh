#!/bin/bash
# Run once after a fresh restore, offline: generate the toolchain overlay, build the harness, warm the build cache.
set -euo pipefail
. "$(dirname "$0")/env.sh"
$ROOT/scripts/mkoverlay.sh
$ROOT/scripts/build.sh
$ROOT/bin/vpx list
