#!/bin/bash
# Run once after a fresh restore, offline: generate the toolchain overlay, build the harness, warm the build cache.
set -euo pipefail
/verif/scripts/mkoverlay.sh
/verif/scripts/build.sh
/verif/bin/vpx list
