#!/usr/bin/env python3
"""Regenerates /verif/MANIFEST.json from the table below and the list of checks the harness binary registers."""
import json, subprocess
built = subprocess.run(['/verif/bin/vpx', 'list'], capture_output=True, text=True).stdout.split()
hooks = subprocess.run(['git', '-C', '/repo', 'log', '--format=%H %s'], capture_output=True, text=True).stdout.strip().split('\n')
hook_commits = [l.split()[0] for l in hooks if ' verif hooks' in l or 'verif hook' in l]
E1 = 'explicit-state model checking of the implementation: breadth-first search over all op sequences up to a depth on the real ClusterContext, canonical-state deduplication, successor by replay'
E3 = 'bounded exhaustive input enumeration against an independent reference model'
E2 = 'stateless interleaving exploration of the real goroutine bodies under a cooperative scheduler at lock granularity (preemption bounded)'
T = {
 'C01': ('model_checking', 'E1', E1, 'Every reachable state (within the stated alphabet/depth) of the real core is checked for the node books invariant and every scheduler binding of every explored transition is checked against the pre-state node view, reservations, required node and the recorded predicate calls. Model checking is the right level: the property quantifies over all request histories.', 'DESIGN.md 4/C01'),
 'C02': ('model_checking', 'E1', E1, 'Every scheduler decision of every explored transition is checked against the configured maxima of the leaf and all ancestors taken from the pre-state, over several queue hierarchies incl. dynamic queues and tag quotas.', 'DESIGN.md 4/C02'),
 'C03': ('model_checking', 'E1', E1, 'The cross-object ledger equations are evaluated in every reachable state of the bounded search, including fault ops (node removal during swaps, app removal with live allocations, lost/late/duplicate confirmations), plus the terminal zero rule.', 'DESIGN.md 4/C03'),
 'C04': ('model_checking', 'E1', E1, 'The shim model (what the shim sent and was told) is part of the explored state; every outbound message of every transition is judged against it.', 'DESIGN.md 4/C04'),
 'C05': ('model_checking', 'E1', E1, 'Scheduler decisions are checked against the limits of the latest accepted configuration computed by an independent reference from the YAML; after every reload the limits in force are compared with that reference.', 'DESIGN.md 4/C05'),
 'C06': ('model_checking', 'E1', E1, 'All interleavings of placeholder allocation, real asks, replacement, timeout, node removal and confirmations up to the depth, on the real code, with step rules for swaps and timeouts.', 'DESIGN.md 4/C06'),
 'C07': ('model_checking', 'E1', 'exhaustive product of small preemption worlds executed on the real core (every world is an execution of the implementation) plus explicit-state breadth-first search of preemption scenarios with canonical-state deduplication', 'Exhaustive product of small queue-policy worlds; every PREEMPTED_BY_SCHEDULER victim is judged by an independent evaluator of the documented eligibility rules.', 'DESIGN.md 4/C07'),
 'C08': ('model_checking', 'E1', 'exhaustive product of small preemption worlds executed on the real core plus explicit-state breadth-first search of preemption scenarios incl. quota changes, canonical-state deduplication', 'Same worlds; guarantee and shortfall rules evaluated on every preemption decision.', 'DESIGN.md 4/C08'),
 'C09': ('model_checking', 'E1', E1, 'The four reservation views are compared in every reachable state with reservation delay 0.', 'DESIGN.md 4/C09'),
 'C10': ('model_checking', 'E1', E1, 'Every state-log pair and every application update message of every explored transition is checked against the documented relation, with timers as explicit ops.', 'DESIGN.md 4/C10'),
 'C11': ('model_checking', 'E1', E1, 'Every first allocation of an untracked application is checked against running+allocating counts of the pre-state on every level.', 'DESIGN.md 4/C11'),
 'C12': ('model_checking', 'E1', 'crash-point enumeration on top of the explicit-state search: every explored state x every replay order, recovered on a fresh real core and compared', 'Every state of the bounded BFS is a crash point; the shim model is replayed into a fresh core in every order and the ledgers are compared.', 'DESIGN.md 4/C12'),
 'C13': ('model_checking', 'E1', 'exhaustive malformed-message catalogue injected into every state of the explicit-state search', 'Every message of a full-product catalogue is injected into every explored state under recover() and a watchdog; ledger snapshot compared.', 'DESIGN.md 4/C13'),
 'C14': ('model_checking', 'E2', E2, 'All lock-granularity interleavings of 2-3 real goroutine bodies up to a preemption bound; deadlock, panic and final-state invariants.', 'DESIGN.md 4/C14'),
 'C15': ('exploration', 'E3', E3, 'Complete enumeration of small configuration families; accepted documents are checked against an independent transcription of the hierarchy rules and loaded into a new and a running scheduler.', 'DESIGN.md 4/C15'),
 'C16': ('model_checking', 'E1', E1, 'Every state of the bounded BFS x every configuration of the set: rejected reloads change nothing, accepted reloads preserve running state and equal a fresh load (differential oracle).', 'DESIGN.md 4/C16'),
 'C17': ('exploration', 'E3', E3, 'Complete enumeration of rule chains x ACL layouts x users x requested queues against an independent placement evaluator.', 'DESIGN.md 4/C17'),
 'C18': ('exploration', 'E3', E3 + ' (math/big)', 'All pairs of vectors over an extreme-value alphabet for every exported operation; all short quantity strings.', 'DESIGN.md 4/C18'),
 'C19': ('exploration', 'E3', E3, 'Every candidate set up to size 4 in every permutation for every sort policy; node iterator over all bounded histories.', 'DESIGN.md 4/C19'),
 'C20': ('model_checking', 'E3', 'explicit-state BFS over ring-buffer operation sequences with every query in every state against a plain-slice reference; interleaving exploration for the stream', 'All Add/Resize sequences up to the depth and all (start,count) queries in each state.', 'DESIGN.md 4/C20'),
}
E2PART = {
 'C01': 'S8, S19, S23, S30: a step of the scheduling loop that raises a node\'s allocation leaves its available resources non-negative',
 'C02': 'S8, S26, S29: a step of the scheduling loop that raises a queue\'s usage leaves it at or below its maximum',
 'C07': 'S4, S13, S14, S18: every allocation marked for preemption was announced exactly once and an announced victim stays marked',
 'C08': 'S4, S18: the preempting ledger over queue preemption || quota change preemption',
 'C09': 'S1, S10: the four reservation views after scheduling cycle || withdrawal of the ask',
 'C10': 'S15, S16, S21, S22, S24: life-cycle rules over timers || event handler || scheduling loop',
 'C17': 'S6, S25, S32: a dynamic queue is only created while the user has submit access',
}
checks, na = [], []
for pid in sorted(T):
    level, eng, tech, text, ref = T[pid]
    if pid in E2PART:
        tech += '; plus ' + E2 + ' for the part of the property that is about concurrent goroutines (' + E2PART[pid] + ')'
        text += ' The part that depends on the interleaving of goroutines is decided by enumerating all schedules with at most 1 (quick) / 2 (thorough) preemptions of the listed scenarios.'
    if pid in built:
        checks.append({
            'property_id': pid,
            'quick_cmd': '/verif/scripts/check.sh %s quick' % pid,
            'thorough_cmd': '/verif/scripts/check.sh %s thorough' % pid,
            'evidence_file': '/verif/evidence/%s.json' % pid,
            'replay_cmd_template': '/verif/bin/vpx replay {path}',
            'engine': eng,
            'level_claimed': {'category': level, 'text': text, 'design_ref': ref},
            'level_note': 'Trusted base: the harness (world driver, shim model, canonical state, monitors), the Go toolchain with the map-order overlay, the build-tagged hooks. Bounds: small alphabets (<=3 nodes/apps, two resource types), stated depth; one map-iteration rotation per run. A green result says nothing outside those bounds.',
            'technique': tech,
        })
    else:
        na.append({'property_id': pid, 'reason': 'check not built yet (work in progress; planned engine %s, see DESIGN.md section 4)' % eng})
m = {
 'version': 1,
 'setup_cmd': '/verif/scripts/setup.sh',
 'hooks': {'guard': 'verif', 'enable': 'go build -tags verif (plus -overlay /verif/build/overlay.json for the toolchain map-order patch)',
           'baseline_off_cmd': '/verif/scripts/baseline_off.sh', 'source_commits': hook_commits, 'add_only': True},
 'engines': [
  {'name': 'E1', 'path': '/verif/harness/internal/mc', 'serves_properties': [p for p in sorted(T) if T[p][1] == 'E1'], 'kind_free_text': 'explicit-state BFS over the real ClusterContext (coordinator + worker processes, replay-based successors)'},
  {'name': 'E2', 'path': '/verif/harness/internal/ilv', 'serves_properties': ['C01', 'C02', 'C07', 'C08', 'C09', 'C10', 'C14', 'C17', 'C20'], 'kind_free_text': 'cooperative scheduler at the pkg/locking seam, preemption-bounded DFS'},
  {'name': 'E3', 'path': '/verif/harness/internal/enum', 'serves_properties': [p for p in sorted(T) if T[p][1] == 'E3'], 'kind_free_text': 'bounded exhaustive enumeration against reference models'},
 ],
 'checks': checks,
 'not_applicable': na,
 'notes': 'All checks rebuild /verif/bin/vpx from /repo\'s working tree on every invocation (scripts/build.sh). Exit 0 held / 1 VIOLATION / 2 harness error (no verdict).',
}
json.dump(m, open('/verif/MANIFEST.json', 'w'), indent=1)
print('MANIFEST: %d checks, %d not yet built' % (len(checks), len(na)))
