# sourced by every script: toolchain + offline settings; ROOT = the verif tree the script lives in
export PATH=/opt/veriftools/go1.26.8/bin:$PATH
export GOTOOLCHAIN=local GOFLAGS=-mod=mod GOPROXY=off GOSUMDB=off CGO_ENABLED=0
ROOT=$(cd "$(dirname "${BASH_SOURCE[0]}")/.." && pwd)
export VERIF_ROOT=$ROOT
export REPO=${REPO:-/repo}
