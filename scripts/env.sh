# sourced by every script: toolchain + offline settings
export PATH=/opt/veriftools/go1.26.8/bin:$PATH
export GOTOOLCHAIN=local GOFLAGS=-mod=mod GOPROXY=off GOSUMDB=off CGO_ENABLED=0
export VERIF_ROOT=/verif
export REPO=${REPO:-/repo}
