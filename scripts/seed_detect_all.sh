#!/bin/bash
# usage: seed_detect_all.sh [name...]  -- for every kept seeded change (default: all of /verif/seeded): apply it to /repo,
# run the quick check of its property (plus the extra checks listed in EXTRA), revert, and record the outcome in
# /verif/seeded/<name>/meta.json under "detection". /repo must be clean; nothing is committed there.
set -uo pipefail
cd /verif
declare -A EXTRA=( [C09-2]="C14" [C02-2]="C14" [C07-2]="C14" [C12-1]="C01" )
names=("$@"); if [ ${#names[@]} = 0 ]; then names=($(ls seeded)); fi
for n in "${names[@]}"; do
  d=/verif/seeded/$n; id=${n%-*}
  [ -f $d/patch.diff ] || continue
  if [ -n "$(git -C /repo status --porcelain --untracked-files=no)" ]; then echo "/repo is not clean"; exit 2; fi
  if ! git -C /repo apply --check $d/patch.diff 2>/dev/null; then
    python3 - "$d" <<'PY'
import json,sys,subprocess
p=sys.argv[1]+'/meta.json'; m=json.load(open(p))
h=subprocess.check_output(['git','-C','/repo','rev-parse','--short','HEAD']).decode().strip()
m['detection']={'repo_head':h,'result':'patch no longer applies to this head (the code it changes was repaired since)'}
json.dump(m,open(p,'w'),indent=1)
PY
    echo "$n: patch does not apply"; continue
  fi
  git -C /repo apply $d/patch.diff
  res=""
  for chk in $id ${EXTRA[$n]:-}; do
    out=$(./scripts/check.sh $chk quick 2>&1); rc=$?
    fps=$(echo "$out" | grep -o "fp=[^ ]*" | sort -u | head -4 | tr '\n' ' ')
    line=$(echo "$out" | grep "^check" | tail -1)
    res="$res$chk|$rc|$fps|$line;"
  done
  git -C /repo checkout -- .
  python3 - "$d" "$res" <<'PY'
import json,sys,subprocess
p=sys.argv[1]+'/meta.json'; m=json.load(open(p))
h=subprocess.check_output(['git','-C','/repo','rev-parse','--short','HEAD']).decode().strip()
runs=[]
for part in sys.argv[2].split(';'):
    if not part: continue
    chk,rc,fps,line=part.split('|',3)
    runs.append({'check':chk,'tier':'quick','exit':int(rc),'outcome':{0:'missed',1:'detected'}.get(int(rc),'harness error'),'fingerprints':fps.split(),'summary':line})
m['detection']={'repo_head':h,'detected':any(r['exit']==1 for r in runs),'runs':runs}
json.dump(m,open(p,'w'),indent=1)
print(sys.argv[1].split('/')[-1], 'DETECTED' if m['detection']['detected'] else 'MISSED', [ (r['check'],r['outcome']) for r in runs])
PY
done
./scripts/build.sh >/dev/null 2>&1
