#!/bin/bash
# Generates $ROOT/build/overlay.json: a toolchain overlay that makes Go map iteration order
# a deterministic function of a harness-controlled "map mode" (see DESIGN.md section 1).
set -euo pipefail
. "$(dirname "$0")/env.sh"
GOROOT_DIR=$(go env GOROOT)
SRC=$GOROOT_DIR/src/internal/runtime/maps
OUT=$ROOT/build
mkdir -p $OUT
# table.go: iteration start offsets
n=$(grep -c 'it.entryOffset = rand()' $SRC/table.go || true)
m=$(grep -c 'it.dirOffset = rand()' $SRC/table.go || true)
if [ "$n" != 1 ] || [ "$m" != 1 ]; then echo "mkoverlay: iteration offset lines not found in $SRC/table.go" >&2; exit 2; fi
sed -e 's/it.entryOffset = rand()/it.entryOffset = verifOffset()/' \
    -e 's/it.dirOffset = rand()/it.dirOffset = verifOffset()/' $SRC/table.go > $OUT/maps_table.go.txt
cat >> $OUT/maps_table.go.txt <<'G'

// VerifMapMode is set by the verification harness (0 = unchanged random behaviour).
//
//go:linkname VerifMapMode
var VerifMapMode uint64

func verifOffset() uint64 {
	if VerifMapMode == 0 {
		return rand()
	}
	return VerifMapMode - 1
}

func verifSeed() uint64 {
	if VerifMapMode == 0 {
		return rand()
	}
	return 0x9E3779B97F4A7C15
}
G
k=$(grep -c 'm.seed = uintptr(rand())' $SRC/map.go || true)
if [ "$k" -lt 1 ]; then echo "mkoverlay: seed lines not found in $SRC/map.go" >&2; exit 2; fi
sed -e 's/m.seed = uintptr(rand())/m.seed = uintptr(verifSeed())/' $SRC/map.go > $OUT/maps_map.go.txt
if ! grep -q '_ "unsafe"\|"unsafe"' $OUT/maps_table.go.txt; then echo "mkoverlay: table.go does not import unsafe" >&2; exit 2; fi
cat > $OUT/overlay.json <<J
{"Replace": {
 "$SRC/table.go": "$OUT/maps_table.go.txt",
 "$SRC/map.go": "$OUT/maps_map.go.txt"
}}
J
echo "mkoverlay: wrote $OUT/overlay.json"
