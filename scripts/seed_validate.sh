#!/bin/bash
# usage: seed_validate.sh <dir with patch.diff demo_test.go meta.json> <name>
# Confirms a seeded property-breaking change in a scratch worktree of /repo HEAD: it applies, builds, the repository's
# own test suite still passes with it, the demonstration fails with it and passes without it. Writes <dir>/validation.json.
set -uo pipefail
SRC=$(cd "$1" && pwd); NAME=$2
export GOFLAGS=-mod=mod GOPROXY=off
WT=/tmp/seedval-$NAME
git -C /repo worktree remove --force $WT >/dev/null 2>&1; rm -rf $WT
git -C /repo worktree add --detach $WT HEAD >/dev/null 2>&1 || { echo "cannot create worktree"; exit 2; }
cleanup() { git -C /repo worktree remove --force $WT >/dev/null 2>&1; rm -rf $WT; }
trap cleanup EXIT
cd $WT
PKG=$(jq -r .demo_pkg $SRC/meta.json); TEST=$(jq -r .demo_test $SRC/meta.json)
res() { jq -n --arg name "$NAME" --arg head "$(git -C /repo rev-parse --short HEAD)" --arg applies "$1" --arg builds "$2" --arg suite "$3" --arg suitefails "$4" --arg demo_with "$5" --arg demo_without "$6" \
  '{name:$name, repo_head:$head, applies:$applies, builds:$builds, suite_with_change:$suite, suite_failures:$suitefails, demo_with_change:$demo_with, demo_without_change:$demo_without}' > $SRC/validation.json; cat $SRC/validation.json; }
if ! git apply --check $SRC/patch.diff 2>/tmp/seedval-$NAME.err; then res no - - "$(head -3 /tmp/seedval-$NAME.err)" - -; exit 1; fi
git apply $SRC/patch.diff
if ! go build ./... 2>/tmp/seedval-$NAME.err; then res yes no - "$(head -5 /tmp/seedval-$NAME.err)" - -; exit 1; fi
ALLOWED='TestCustomLoggingConfiguration|Test_RouterHandling|Test_HeaderChecks|Test_RedirectDebugHandler|Test_Gzip|TestGzip|TestCompress'
go test -vet=off -count=1 -timeout 25m ./... > /tmp/seedval-$NAME.suite 2>&1
FAILS=$(grep -E '^--- FAIL' /tmp/seedval-$NAME.suite | grep -Ev "$ALLOWED" | awk '{print $3}' | sort -u | tr '\n' ' ')
if [ -n "$FAILS" ]; then
  # load-dependent flakes: re-run the failing packages twice; a test is counted as failing only if it fails again both times
  PKGS=$(grep -E '^FAIL\s+github.com' /tmp/seedval-$NAME.suite | awk '{print $2}' | sed 's#github.com/apache/yunikorn-core#.#' | grep -v webservice | grep -v entrypoint | tr '\n' ' ')
  if [ -n "$PKGS" ]; then
    go test -vet=off -count=1 -timeout 25m $PKGS > /tmp/seedval-$NAME.rerun1 2>&1
    go test -vet=off -count=1 -timeout 25m $PKGS > /tmp/seedval-$NAME.rerun2 2>&1
    F1=$(grep -E '^--- FAIL' /tmp/seedval-$NAME.rerun1 | grep -Ev "$ALLOWED" | awk '{print $3}' | sort -u)
    F2=$(grep -E '^--- FAIL' /tmp/seedval-$NAME.rerun2 | grep -Ev "$ALLOWED" | awk '{print $3}' | sort -u)
    FAILS=$(comm -12 <(echo "$F1") <(echo "$F2") | tr '\n' ' ')
  else
    FAILS=""
  fi
fi
SUITE=pass; [ -n "${FAILS// /}" ] && SUITE=fail
cp $SRC/demo_test.go $PKG/zz_seed_demo_test.go
go test -vet=off -count=1 -run "^$TEST\$" ./$PKG/ > /tmp/seedval-$NAME.with 2>&1; W=$?
git apply -R $SRC/patch.diff
go test -vet=off -count=1 -run "^$TEST\$" ./$PKG/ > /tmp/seedval-$NAME.without 2>&1; WO=$?
DW=fail; [ $W = 0 ] && DW=pass; DWO=pass; [ $WO = 0 ] || DWO=fail
grep -q "no tests to run" /tmp/seedval-$NAME.with && DW=notrun
res yes yes $SUITE "$FAILS" $DW $DWO
[ $SUITE = pass ] && [ $DW = fail ] && [ $DWO = pass ]
