#!/bin/bash
# usage: check.sh <property id> <quick|thorough>
# exit 0: property held on everything explored; 1: VIOLATION line printed; 2: harness error (no verdict)
set -uo pipefail
ID=$1; TIER=${2:-quick}
if ! /verif/scripts/build.sh >/tmp/verif-build.$$.log 2>&1; then
  echo "HARNESS-ERROR: build failed" >&2; cat /tmp/verif-build.$$.log >&2; rm -f /tmp/verif-build.$$.log; exit 2
fi
rm -f /tmp/verif-build.$$.log
exec /verif/bin/vpx check "$ID" --tier "$TIER"
