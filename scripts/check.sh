#!/bin/bash
# usage: check.sh <property id> <quick|thorough>
# exit 0: property held on everything explored; 1: VIOLATION line printed; 2: harness error (no verdict)
set -uo pipefail
ID=$1; TIER=${2:-quick}
. "$(dirname "$0")/env.sh"
LOG=$(mktemp)
RACE=""; if [ "$ID" = "C14" ] && [ "$TIER" = "thorough" ]; then RACE=race; fi
if ! $ROOT/scripts/build.sh $RACE >$LOG 2>&1; then
  echo "HARNESS-ERROR: build failed" >&2; cat $LOG >&2; rm -f $LOG; exit 2
fi
rm -f $LOG
exec $ROOT/bin/vpx check "$ID" --tier "$TIER"
