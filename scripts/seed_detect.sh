#!/bin/bash
# usage: seed_detect.sh <seeded dir> <check id> [tier]   -- applies the change to /repo, runs the check, reverts. Prints DETECTED / MISSED.
set -uo pipefail
D=$(cd "$1" && pwd); ID=$2; TIER=${3:-quick}
cd /repo
if [ -n "$(git status --porcelain --untracked-files=no)" ]; then echo "/repo is not clean"; exit 2; fi
git apply $D/patch.diff || { echo "patch does not apply"; exit 2; }
trap 'git -C /repo checkout -- . ; /verif/scripts/build.sh >/dev/null 2>&1' EXIT
OUT=$(/verif/scripts/check.sh $ID $TIER 2>&1); RC=$?
echo "$OUT" | grep -E "^VIOLATION|rule=|^check|HARNESS" | head -12
if [ $RC = 1 ]; then echo "DETECTED by $ID ($TIER)"; elif [ $RC = 0 ]; then echo "MISSED by $ID ($TIER)"; else echo "HARNESS-ERROR rc=$RC from $ID"; fi
exit 0
