#!/bin/bash
# Runs the repository's own test suite with the verif guard OFF (no -tags verif) without touching /repo/go.mod|go.sum.
set -uo pipefail
export GOFLAGS=-mod=mod GOPROXY=off
T=$(mktemp -d /tmp/verif-baseline.XXXXXX)
cp /repo/go.mod $T/go.mod; cp /repo/go.sum $T/go.sum
cd /repo
go test -modfile=$T/go.mod -vet=off -count=1 -timeout 25m ./... 2>&1 | tail -60
rc=${PIPESTATUS[0]}
rm -rf $T
git -C /repo status --short
exit $rc
