#!/usr/bin/env python3-vt
"""Validates MANIFEST.json and every evidence file against the given schemas."""
import json, sys, glob, jsonschema
ok = True
m = json.load(open('/verif/MANIFEST.json'))
try:
    jsonschema.validate(m, json.load(open('/root/.vp/MANIFEST.schema.json')))
    print('MANIFEST.json valid: %d checks, %d not_applicable' % (len(m['checks']), len(m.get('not_applicable', []))))
except Exception as e:
    ok = False; print('MANIFEST invalid:', e)
es = json.load(open('/root/.vp/EVIDENCE.schema.json'))
for c in m['checks']:
    f = c['evidence_file']
    try:
        e = json.load(open(f))
        jsonschema.validate(e, es)
        cov = e['coverage']
        print(f, 'valid', e['level'], e['tier'], 'wall %.0fs' % e['wall_s'], {k: cov[k] for k in ('states','transitions','evaluations','distinct_nontrivial','exhaustive') if k in cov})
    except Exception as ex:
        ok = False; print(f, 'INVALID', str(ex)[:300])
ids = {json.loads(l)['id'] for l in open('/verif/properties.jsonl')}
claimed = {c['property_id'] for c in m['checks']}
na = {n['property_id'] for n in m.get('not_applicable', [])}
if ids != claimed | na or claimed & na:
    ok = False; print('property coverage mismatch: missing', ids - claimed - na, 'both', claimed & na)
sys.exit(0 if ok else 1)
