#!/bin/bash
# Rebuilds bin/vpx from /repo's CURRENT working tree (hooks on: -tags verif) with the map-order overlay.
set -euo pipefail
. "$(dirname "$0")/env.sh"
[ -f $ROOT/build/overlay.json ] || $ROOT/scripts/mkoverlay.sh >&2
cd $ROOT/harness
# go.sum of the harness module must cover the repository's (which a change under test may have extended)
cat $REPO/go.sum $ROOT/harness/go.sum 2>/dev/null | sort -u > $ROOT/harness/go.sum.new
if ! cmp -s $ROOT/harness/go.sum.new $ROOT/harness/go.sum; then mv $ROOT/harness/go.sum.new $ROOT/harness/go.sum; else rm -f $ROOT/harness/go.sum.new; fi
mkdir -p $ROOT/bin
go build -tags verif -overlay $ROOT/build/overlay.json -o $ROOT/bin/vpx.new ./cmd/vpx
mv $ROOT/bin/vpx.new $ROOT/bin/vpx
# the -race variant (race pass of C14 thorough): only when asked for, it is cached by the go build cache afterwards
if [ "${1:-}" = "race" ] || [ -n "${VERIF_BUILD_RACE:-}" ]; then
  CGO_ENABLED=1 go build -race -tags verif -overlay $ROOT/build/overlay.json -o $ROOT/bin/vpx-race.new ./cmd/vpx && mv $ROOT/bin/vpx-race.new $ROOT/bin/vpx-race
fi
