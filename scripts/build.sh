#!/bin/bash
# Rebuilds /verif/bin/vpx from /repo's CURRENT working tree (hooks on: -tags verif) with the map-order overlay.
set -euo pipefail
. /verif/scripts/env.sh
[ -f /verif/build/overlay.json ] || /verif/scripts/mkoverlay.sh >&2
cd /verif/harness
# go.sum of the harness module must cover the repository's (which a change under test may have extended)
cat /repo/go.sum /verif/harness/go.sum 2>/dev/null | sort -u > /verif/harness/go.sum.new
if ! cmp -s /verif/harness/go.sum.new /verif/harness/go.sum; then mv /verif/harness/go.sum.new /verif/harness/go.sum; else rm -f /verif/harness/go.sum.new; fi
mkdir -p /verif/bin
go build -tags verif -overlay /verif/build/overlay.json -o /verif/bin/vpx ./cmd/vpx
