#!/usr/bin/env python3
"""Copies validated seeded changes from /tmp/seed-out into /verif/seeded/<id>-<n>/ (patch.diff, demo_test.go, meta.json)."""
import json, os, shutil, glob, sys
for vf in sorted(glob.glob(os.environ.get('SEED_OUT','/tmp/seed-out')+'/C*/*/validation.json')):
    d = os.path.dirname(vf)
    v = json.load(open(vf))
    ok = v['applies'] == 'yes' and v['builds'] == 'yes' and v['suite_with_change'] == 'pass' and v['demo_with_change'] == 'fail' and v['demo_without_change'] == 'pass'
    name = v['name']
    if not ok:
        print('NOT confirmed:', name, v); continue
    dst = '/verif/seeded/' + name
    os.makedirs(dst, exist_ok=True)
    shutil.copy(d + '/patch.diff', dst + '/patch.diff')
    shutil.copy(d + '/demo_test.go', dst + '/demo_test.go.txt')
    m = json.load(open(d + '/meta.json'))
    old = {}
    if os.path.exists(dst + '/meta.json'):
        old = json.load(open(dst + '/meta.json'))
    meta = {
        'property': m.get('property'), 'summary': m.get('summary'), 'needs_to_manifest': m.get('needs'), 'files_touched': m.get('files_touched'),
        'explanation': m.get('explanation'), 'demo_pkg': m.get('demo_pkg'), 'demo_test': m.get('demo_test'),
        'author': 'independent sub-agent given only the property text and a scratch worktree',
        'confirmed_by': 'scripts/seed_validate.sh in a scratch worktree of /repo HEAD ' + v['repo_head'] + ': patch applies, go build ok, full go test ./... passes with the change (sandbox-only webservice/entrypoint failures ignored), demo fails with the change, demo passes without it',
        'validation': v,
        'detection': old.get('detection', {}),
    }
    json.dump(meta, open(dst + '/meta.json', 'w'), indent=1)
    print('imported', name)
