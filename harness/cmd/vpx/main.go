package main

import (
	"encoding/json"
	"flag"
	"fmt"
	"os"
	"path/filepath"
	"runtime/pprof"
	"sort"
	"strconv"
	"strings"
	"time"

	"verif/harness/internal/evidence"
	"verif/harness/internal/mc"
	"verif/harness/internal/props"
	"verif/harness/internal/world"
)

var verifRoot = "/verif"

type knownFinding struct {
	Property    string `json:"property"`
	Fingerprint string `json:"fingerprint"`
	Context     string `json:"context,omitempty"` // context tag that must be on the failing path ("" = any)
	Status      string `json:"status"`            // known | fixed
	Description string `json:"description"`
	Commit      string `json:"commit,omitempty"`
}

func loadKnown() []knownFinding {
	var k struct {
		Findings []knownFinding `json:"findings"`
	}
	b, err := os.ReadFile(filepath.Join(verifRoot, "known_findings.json"))
	if err != nil {
		return nil
	}
	if err := json.Unmarshal(b, &k); err != nil {
		fmt.Fprintln(os.Stderr, "known_findings.json unreadable:", err)
		os.Exit(2)
	}
	return k.Findings
}

type replayFile struct {
	Property  string       `json:"property"`
	Scenario  string       `json:"scenario"`
	MapMode   int          `json:"mapMode"`
	Path      []world.Op   `json:"path"`
	Violation mc.Violation `json:"violation"`
	Custom    interface{}  `json:"custom,omitempty"`
	Tier      string       `json:"tier,omitempty"`
}

func main() {
	if r := os.Getenv("VERIF_ROOT"); r != "" {
		verifRoot = r
	}
	if len(os.Args) < 2 {
		fmt.Fprintln(os.Stderr, "usage: vpx check <id> [--tier quick|thorough] | replay <file> | worker | list")
		os.Exit(2)
	}
	world.InitProcess()
	switch os.Args[1] {
	case "worker":
		mc.WorkerMain()
	case "leak":
		n, _ := strconv.Atoi(os.Args[3])
		k, _ := strconv.Atoi(os.Args[4])
		props.LeakProbe(os.Args[2], n, k)
	case "ilvdet":
		n, _ := strconv.Atoi(os.Args[3])
		var prefix []int
		if len(os.Args) > 4 {
			prefix = props.DecodeChoices(os.Args[4])
		}
		props.C14Determinism(os.Args[2], n, prefix)
	case "racepass":
		n, _ := strconv.Atoi(os.Args[2])
		os.Exit(props.RacePassMain(n))
	case "shard":
		sh, _ := strconv.Atoi(os.Args[4])
		n, _ := strconv.Atoi(os.Args[5])
		os.Exit(props.ShardMain(os.Args[2], os.Args[3], sh, n))
	case "list":
		ids := []string{}
		for id := range props.Checks {
			ids = append(ids, id)
		}
		sort.Strings(ids)
		fmt.Println(strings.Join(ids, " "))
	case "check":
		os.Exit(cmdCheck(os.Args[2:]))
	case "replay":
		os.Exit(cmdReplay(os.Args[2:]))
	case "explore":
		os.Exit(cmdExplore(os.Args[2:]))
	case "bench":
		os.Exit(cmdBench(os.Args[2:]))
	case "canon":
		os.Exit(cmdCanon(os.Args[2:]))
	default:
		fmt.Fprintln(os.Stderr, "unknown command", os.Args[1])
		os.Exit(2)
	}
}

func cmdExplore(args []string) int {
	fs := flag.NewFlagSet("explore", flag.ExitOnError)
	depth := fs.Int("depth", 4, "depth")
	mode := fs.Int("mode", 1, "map mode")
	workers := fs.Int("workers", 0, "workers")
	maxStates := fs.Int("max", 0, "state cap")
	extra := fs.Int("extra", -1, "extra depth")
	_ = fs.Parse(args[1:])
	rep := mc.Explore(mc.Config{Scenario: args[0], Depth: *depth, MapMode: *mode, Workers: *workers, MaxStates: *maxStates, ExtraDepth: *extra})
	b, _ := json.MarshalIndent(rep, "", " ")
	fmt.Println(string(b))
	type agg struct {
		n  int
		ex mc.Found
	}
	groups := map[string]*agg{}
	var order []string
	for _, f := range rep.Found {
		k := f.Viol.FP + " ctx=" + strings.Join(f.Viol.Ctx, "+")
		if groups[k] == nil {
			groups[k] = &agg{ex: f}
			order = append(order, k)
		}
		groups[k].n++
	}
	for _, k := range order {
		g := groups[k]
		fmt.Printf("FOUND x%d %s\n   %s\n   path: %s\n", g.n, k, g.ex.Viol.Detail, world.PathString(g.ex.Path))
	}
	fmt.Printf("found=%d\n", len(rep.Found))
	return 0
}

func cmdCheck(args []string) int {
	if len(args) < 1 {
		fmt.Fprintln(os.Stderr, "usage: vpx check <id> [--tier quick|thorough]")
		return 2
	}
	id := args[0]
	fs := flag.NewFlagSet("check", flag.ExitOnError)
	tier := fs.String("tier", "", "quick|thorough")
	_ = fs.Parse(args[1:])
	if *tier == "" {
		*tier = os.Getenv("VERIF_TIER")
	}
	if *tier != "thorough" {
		*tier = "quick"
	}
	seed := int64(0)
	if s := os.Getenv("VERIF_SEED"); s != "" {
		if v, err := strconv.ParseInt(s, 10, 64); err == nil {
			seed = v
		}
	}
	def := props.Checks[id]
	if def == nil {
		fmt.Fprintln(os.Stderr, "unknown property", id)
		return 2
	}
	start := time.Now()
	var found []mc.Found
	var harness []string
	coverage := map[string]interface{}{}
	if def.Custom != nil {
		cr := def.Custom(*tier, seed)
		coverage = cr.Coverage
		found = cr.Violations
		harness = cr.Harness
	} else {
		runs := def.Quick
		budget := def.QuickBudget
		if *tier == "thorough" {
			runs = def.Thorough
			budget = def.ThoroughBudget
		}
		nRuns := 0
		for _, r := range runs {
			nRuns += len(r.MapModes)
		}
		states, transitions, steps, verified, shapes := 0, 0, 0, 0, 0
		xevals, xdistinct := 0, 0
		exhaustive := true
		var reports []*mc.Report
		var samples []string
		counts := map[string]int{}
		done := 0
		for _, r := range runs {
			for _, mode := range r.MapModes {
				remaining := budget - time.Since(start)
				share := remaining / time.Duration(nRuns-done)
				if share < 5*time.Second {
					share = 5 * time.Second
				}
				xd := r.ExtraDepth
				if mc.Scenarios[r.Scenario] != nil && mc.Scenarios[r.Scenario].Extra == nil {
					xd = -1
				}
				rep := mc.Explore(mc.Config{Scenario: r.Scenario, Depth: r.Depth, MaxStates: r.MaxStates, MapMode: mode, Budget: share, ExtraDepth: xd})
				done++
				reports = append(reports, rep)
				states += rep.States
				transitions += rep.Transitions
				steps += rep.Steps
				verified += rep.ReplaysVerified
				shapes += rep.Shapes
				xevals += rep.ExtraEvals
				xdistinct += rep.ExtraDistinct
				exhaustive = exhaustive && rep.Exhaustive
				for k, c := range rep.Counts {
					counts[k] += c
				}
				for _, s := range rep.Samples {
					samples = append(samples, rep.Scenario+": "+s)
				}
				found = append(found, rep.Found...)
				harness = append(harness, rep.Harness...)
			}
		}
		if len(samples) == 0 {
			samples = []string{"(no transitions explored)"}
		}
		vacuous := []string{}
		for k, c := range counts {
			if c == 0 {
				vacuous = append(vacuous, k)
			}
		}
		coverage["states"] = states
		coverage["transitions"] = transitions
		coverage["traces_validated_against_impl"] = transitions
		coverage["samples"] = samples
		coverage["exhaustive"] = exhaustive
		coverage["implementation_steps_executed"] = steps
		coverage["replays_hash_verified"] = verified
		coverage["distinct_outbound_trace_shapes"] = shapes
		coverage["rule_nonvacuous_evaluations"] = counts
		coverage["runs"] = reports
		coverage["explanation"] = "every state is a state of the real ClusterContext reached by executing the op sequence on the implementation; there is no separate model, so every transition is validated against the implementation by construction"
		if xevals > 0 {
			coverage["evaluations"] = xevals
			coverage["distinct_nontrivial"] = xdistinct
			coverage["rule"] = "fault/crash/malformed-input cases enumerated on top of every explored state; distinct = distinct (case class, outcome class) pairs"
		}
		_ = vacuous
		if def.Also != nil {
			cr := def.Also(*tier)
			found = append(found, cr.Violations...)
			harness = append(harness, cr.Harness...)
			for k, x := range cr.Coverage {
				if k == "exhaustive" {
					if b, ok := x.(bool); ok && !b {
						coverage["exhaustive"] = false
					}
					continue
				}
				coverage["interleaving_"+k] = x
			}
		}
	}
	// classify findings against the committed known-findings file
	known := loadKnown()
	unlisted := 0
	printedKnown := map[string]bool{}
	seenFP := map[string]int{}
	n := 0
	for _, f := range found {
		if f.Viol.Prop != id && f.Viol.Prop != "HARNESS" {
			continue
		}
		if f.Viol.Prop == "HARNESS" {
			harness = append(harness, f.Viol.Detail+" path="+world.PathString(f.Path))
			continue
		}
		isKnown := false
		for _, k := range known {
			if k.Status == "known" && k.Property == id && fpMatch(k.Fingerprint, f.Viol.FP) && hasCtx(f.Viol.Ctx, k.Context) {
				isKnown = true
				if !printedKnown[k.Fingerprint+"@"+k.Context] {
					printedKnown[k.Fingerprint+"@"+k.Context] = true
					fmt.Printf("KNOWN-FINDING: property=%s %s [%s@%s]\n", id, k.Description, k.Fingerprint, k.Context)
				}
			}
		}
		if isKnown {
			continue
		}
		unlisted++
		seenFP[f.Viol.FP]++
		if os.Getenv("VERIF_SHOW_ALL") != "" {
			if seenFP[f.Viol.FP] <= 1 {
				fmt.Printf("  [all] fp=%s ctx=%v\n    %s\n    path: %s\n", f.Viol.FP, f.Viol.Ctx, f.Viol.Detail, world.PathString(f.Path))
			}
		}
		if seenFP[f.Viol.FP] > 2 || n >= 12 {
			continue
		}
		n++
		rf := replayFile{Property: id, Scenario: f.Scenario, MapMode: f.MapMode, Path: f.Path, Violation: f.Viol, Custom: f.Custom, Tier: *tier}
		name := filepath.Join(verifRoot, "replays", fmt.Sprintf("%s-%d.json", id, n))
		_ = os.MkdirAll(filepath.Dir(name), 0o755)
		b, _ := json.MarshalIndent(rf, "", " ")
		_ = os.WriteFile(name, append(b, '\n'), 0o644)
		fmt.Printf("VIOLATION property=%s replay=%s\n", id, name)
		fmt.Printf("  rule=%s fp=%s ctx=%v\n  %s\n  path: %s\n", f.Viol.Rule, f.Viol.FP, f.Viol.Ctx, f.Viol.Detail, world.PathString(f.Path))
		if f.Custom != nil {
			fmt.Printf("  input: %s\n", world.J(f.Custom))
		}
	}
	if unlisted > n {
		fps := []string{}
		for fp := range seenFP {
			fps = append(fps, fp)
		}
		sort.Strings(fps)
		for _, fp := range fps {
			fmt.Printf("  unlisted violations with fingerprint %s: %d\n", fp, seenFP[fp])
		}
	}
	coverage["known_findings_matched"] = len(printedKnown)
	if len(harness) > 0 {
		coverage["harness_errors"] = harness
		coverage["exhaustive"] = false
	}
	ev := &evidence.File{PropertyID: id, Tier: *tier, Seed: seed, Level: def.Level, Coverage: coverage, WallS: time.Since(start).Seconds(), Violations: unlisted,
		Assumptions: append([]string{"bounded alphabet and depth as listed per run; map iteration order fixed per run by the toolchain overlay (one rotation per execution)",
			"timers fire only as explicit ops; wall-clock thresholds set to 0 or infinity per scenario"}, def.Assumptions...)}
	if err := evidence.Write(filepath.Join(verifRoot, "evidence"), ev); err != nil {
		fmt.Fprintln(os.Stderr, "cannot write evidence:", err)
		return 2
	}
	fmt.Printf("check %s tier=%s wall=%.1fs violations=%d harness_errors=%d exhaustive=%v\n", id, *tier, time.Since(start).Seconds(), unlisted, len(harness), coverage["exhaustive"])
	if unlisted > 0 {
		return 1
	}
	if len(harness) > 0 {
		for _, h := range harness {
			fmt.Fprintln(os.Stderr, "HARNESS-ERROR:", h)
		}
		return 2
	}
	return 0
}

func cmdReplay(args []string) int {
	if len(args) < 1 {
		fmt.Fprintln(os.Stderr, "usage: vpx replay <file>")
		return 2
	}
	b, err := os.ReadFile(args[0])
	if err != nil {
		fmt.Fprintln(os.Stderr, err)
		return 2
	}
	var rf replayFile
	if err := json.Unmarshal(b, &rf); err != nil {
		fmt.Fprintln(os.Stderr, err)
		return 2
	}
	if rf.Custom != nil {
		return props.ReplayCustom(rf.Property, rf.Violation.FP, rf.Tier, rf.Custom)
	}
	world.SetMapMode(rf.MapMode)
	trace, viol, err := mc.ReplayPath(rf.Scenario, rf.Path)
	if err != nil {
		fmt.Fprintln(os.Stderr, err)
		return 2
	}
	for i, st := range trace {
		fmt.Printf("step %d: %s\n", i+1, st.Op)
		for _, o := range st.Out {
			fmt.Printf("    -> %s\n", world.J(o))
		}
		if st.Panic != "" {
			fmt.Printf("    PANIC: %s\n", st.Panic)
		}
		if st.Hang != "" {
			fmt.Printf("    HANG: %s\n", st.Hang)
		}
		if st.Result != "" {
			fmt.Printf("    result: %s\n", st.Result)
		}
	}
	hit := false
	for _, vv := range viol {
		fmt.Printf("violation: %s %s: %s\n", vv.Prop, vv.Rule, vv.Detail)
		if vv.FP == rf.Violation.FP {
			hit = true
		}
	}
	if hit {
		fmt.Println("REPRODUCED")
		return 1
	}
	fmt.Println("not reproduced")
	return 0
}

// cmdCanon replays a path given as JSON ops and prints the canonical state (debugging aid).
func cmdCanon(args []string) int {
	scn := args[0]
	var path []world.Op
	if err := json.Unmarshal([]byte(args[1]), &path); err != nil {
		fmt.Fprintln(os.Stderr, err)
		return 2
	}
	if len(args) > 2 {
		m, _ := strconv.Atoi(args[2])
		world.SetMapMode(m)
	}
	def := mc.Scenarios[scn]
	for i := 0; i < 2; i++ {
		w, err := world.New(def.Scn)
		if err != nil {
			fmt.Fprintln(os.Stderr, err)
			return 2
		}
		for _, op := range path {
			st := w.Apply(op)
			if i == 0 {
				fmt.Fprintf(os.Stderr, "%s -> %s\n", op, world.J(st.Out))
			}
		}
		fmt.Println(w.Snapshot().Canon())
		if i == 0 {
			fmt.Fprintf(os.Stderr, "ask logs: %v\n", w.AskLogs())
		}
		w.Close()
	}
	return 0
}

func cmdBench(args []string) int {
	scn := args[0]
	var path []world.Op
	_ = json.Unmarshal([]byte(args[1]), &path)
	world.SetMapMode(1)
	def := mc.Scenarios[scn]
	f, _ := os.Create("/tmp/vpx.prof")
	_ = pprof.StartCPUProfile(f)
	start := time.Now()
	n := 2000
	for i := 0; i < n; i++ {
		w, err := world.New(def.Scn)
		if err != nil {
			fmt.Println(err)
			return 2
		}
		for _, op := range path {
			w.Apply(op)
		}
		_ = world.Hash(w.Snapshot().Canon())
		w.Close()
	}
	pprof.StopCPUProfile()
	fmt.Printf("%d executions of %d ops in %v: %.0f us each\n", n, len(path), time.Since(start), float64(time.Since(start).Microseconds())/float64(n))
	return 0
}

func hasCtx(tags []string, want string) bool {
	if want == "" {
		return true
	}
	for _, t := range tags {
		if t == want {
			return true
		}
	}
	return false
}

func fpMatch(pattern, fp string) bool {
	if strings.HasSuffix(pattern, "*") {
		return strings.HasPrefix(fp, pattern[:len(pattern)-1])
	}
	return pattern == fp
}
