// Package world drives the REAL yunikorn-core ClusterContext synchronously, op by op, through the
// build-tagged hooks, with a mock shim that records every outbound message. It is the transition
// system explored by the model checker (engine E1, DESIGN.md section 3).
package world

import (
	"encoding/json"
	"sort"
	"strconv"
	"strings"
)

// Res is a compact, canonical (zero entries pruned) resource vector.
type Res map[string]int64

func (r Res) Clone() Res {
	o := Res{}
	for k, v := range r {
		if v != 0 {
			o[k] = v
		}
	}
	return o
}

func (r Res) Add(o Res) Res {
	n := r.Clone()
	for k, v := range o {
		n[k] += v
		if n[k] == 0 {
			delete(n, k)
		}
	}
	return n
}

func (r Res) Sub(o Res) Res {
	n := r.Clone()
	for k, v := range o {
		n[k] -= v
		if n[k] == 0 {
			delete(n, k)
		}
	}
	return n
}

func (r Res) Equal(o Res) bool {
	a, b := r.Clone(), o.Clone()
	if len(a) != len(b) {
		return false
	}
	for k, v := range a {
		if b[k] != v {
			return false
		}
	}
	return true
}

func (r Res) IsZero() bool { return len(r.Clone()) == 0 }

func (r Res) HasNegative() bool {
	for _, v := range r {
		if v < 0 {
			return true
		}
	}
	return false
}

// FitsIn reports whether r <= o component-wise, a type missing from o counting as 0.
func (r Res) FitsIn(o Res) bool {
	for k, v := range r {
		if v > o[k] {
			return false
		}
	}
	return true
}

func (r Res) String() string {
	keys := make([]string, 0, len(r))
	for k := range r {
		keys = append(keys, k)
	}
	sort.Strings(keys)
	var sb strings.Builder
	sb.WriteString("{")
	for i, k := range keys {
		if i > 0 {
			sb.WriteString(",")
		}
		sb.WriteString(k + ":" + strconv.FormatInt(r[k], 10))
	}
	sb.WriteString("}")
	return sb.String()
}

// M is shorthand for a memory-only resource, MV for memory+vcore.
func M(m int64) Res { return Res{"memory": m} }
func MV(m, v int64) Res {
	return Res{"memory": m, "vcore": v}.Clone()
}

type NodeSpec struct {
	ID   string `json:"id"`
	Cap  Res    `json:"cap"`
	Caps []Res  `json:"caps,omitempty"` // alternative capacities for NODE_CAP
}

type AppSpec struct {
	ID             string            `json:"id"`
	Queue          string            `json:"queue"`
	User           string            `json:"user"`
	Groups         []string          `json:"groups,omitempty"`
	Tags           map[string]string `json:"tags,omitempty"`
	Gang           string            `json:"gang,omitempty"` // "", Soft, Hard
	PlaceholderAsk Res               `json:"phAsk,omitempty"`
	Forced         bool              `json:"forced,omitempty"`
	NilUGI         bool              `json:"nilUgi,omitempty"`
}

type AskSpec struct {
	Key               string `json:"key"`
	App               string `json:"app"`
	Res               Res    `json:"res"`
	Prio              int32  `json:"prio,omitempty"`
	Placeholder       bool   `json:"ph,omitempty"`
	TaskGroup         string `json:"tg,omitempty"`
	RequiredNode      string `json:"req,omitempty"`
	AllowPreemptSelf  bool   `json:"aps,omitempty"`
	AllowPreemptOther bool   `json:"apo,omitempty"`
	Originator        bool   `json:"orig,omitempty"`
	Create            int64  `json:"create"`                 // creation time in unix seconds (far past), distinct per ask
	BoundNode         string `json:"bound,omitempty"`        // for ASK_BOUND: node the RM placed it on
	Resize            Res    `json:"resize,omitempty"`       // for ASK_RESIZE
	ResizeNoNode      bool   `json:"resizeNoNode,omitempty"` // ASK_RESIZE re-sends the request as originally submitted (no node id) even when bound
	BindNode          string `json:"bind,omitempty"`         // for ASK_BIND: the RM binds the outstanding ask itself on this node
	BindResize        bool   `json:"bindResize,omitempty"`   // ASK_BIND carries the Resize quantity (placement and resize of a known ask in one update) unless the key was resized before
}

type ForeignSpec struct {
	Key    string `json:"key"`
	Node   string `json:"node"`
	Res    Res    `json:"res"`
	Res2   Res    `json:"res2,omitempty"` // FOREIGN_UPDATE target
	Static bool   `json:"static,omitempty"`
}

// Scenario is the closed world the explorer enumerates: configuration(s), catalogues of nodes,
// applications, asks and foreign allocations, predicate table, op alphabet and a scripted prefix.
type Scenario struct {
	Name          string            `json:"name"`
	Configs       []string          `json:"configs"` // Configs[0] is the initial document; CONFIG(i) reloads Configs[i]
	Nodes         []NodeSpec        `json:"nodes"`
	Apps          []AppSpec         `json:"apps"`
	Asks          []AskSpec         `json:"asks"`
	Foreign       []ForeignSpec     `json:"foreign,omitempty"`
	Deny          [][2]string       `json:"deny,omitempty"`    // (ask key, node) pairs the predicate refuses
	DenyPre       [][2]string       `json:"denyPre,omitempty"` // (ask key, node) pairs the preemption predicate refuses
	Alphabet      []string          `json:"alphabet"`          // op kinds that may be generated
	Prefix        []Op              `json:"prefix,omitempty"`  // scripted ops applied before exploration
	Reserve       bool              `json:"reserve,omitempty"` // reservation delay 0 (true) or effectively infinite (false)
	Preempt       bool              `json:"preempt,omitempty"` // preemption timing thresholds crossed (attempt frequency 0)
	MaxConfirmDup int               `json:"maxConfirmDup,omitempty"`
	ExtraConfig   map[string]string `json:"extraConfig,omitempty"`
	Watchdog      bool              `json:"watchdog,omitempty"` // run every op under an in-process hang watchdog (C13/C10/C14)
}

func (s *Scenario) Has(kind string) bool {
	for _, k := range s.Alphabet {
		if k == kind {
			return true
		}
	}
	return false
}

func (s *Scenario) Node(id string) *NodeSpec {
	for i := range s.Nodes {
		if s.Nodes[i].ID == id {
			return &s.Nodes[i]
		}
	}
	return nil
}

func (s *Scenario) App(id string) *AppSpec {
	for i := range s.Apps {
		if s.Apps[i].ID == id {
			return &s.Apps[i]
		}
	}
	return nil
}

func (s *Scenario) Ask(key string) *AskSpec {
	for i := range s.Asks {
		if s.Asks[i].Key == key {
			return &s.Asks[i]
		}
	}
	return nil
}

func (s *Scenario) ForeignSpec(key string) *ForeignSpec {
	for i := range s.Foreign {
		if s.Foreign[i].Key == key {
			return &s.Foreign[i]
		}
	}
	return nil
}

// Op is one transition label. K is the kind, A/B string arguments, N an integer argument.
type Op struct {
	K string `json:"k"`
	A string `json:"a,omitempty"`
	B string `json:"b,omitempty"`
	N int    `json:"n,omitempty"`
}

func (o Op) String() string {
	s := o.K
	if o.A != "" {
		s += "(" + o.A
		if o.B != "" {
			s += "," + o.B
		}
		if o.N != 0 {
			s += "," + strconv.Itoa(o.N)
		}
		s += ")"
	} else if o.N != 0 || o.K == "CONFIG" || o.K == "CONFIRM" || o.K == "CONFIRM_DUP" {
		s += "(" + strconv.Itoa(o.N) + ")"
	}
	return s
}

func PathString(p []Op) string {
	parts := make([]string, len(p))
	for i, o := range p {
		parts[i] = o.String()
	}
	return strings.Join(parts, " ")
}

// Out is one normalised outbound SI message element, in emission order.
type Out struct {
	T     string `json:"t"` // newalloc | release | appacc | apprej | appupd | nodeacc | noderej | allocrej
	App   string `json:"app,omitempty"`
	Key   string `json:"key,omitempty"`
	Node  string `json:"node,omitempty"`
	Res   Res    `json:"res,omitempty"`
	Term  string `json:"term,omitempty"`  // termination type of a release
	State string `json:"state,omitempty"` // application state of an update
	Msg   string `json:"msg,omitempty"`
	Ph    bool   `json:"ph,omitempty"`
	TG    string `json:"tg,omitempty"`
	Group int    `json:"grp"` // index of the rmevent message this element arrived in
}

type PredCall struct {
	Key      string `json:"key"`
	Node     string `json:"node"`
	Allocate bool   `json:"alloc"`
	OK       bool   `json:"ok"`
}

// Step is what one applied op produced.
type Step struct {
	Op     Op         `json:"op"`
	Out    []Out      `json:"out,omitempty"`
	Preds  []PredCall `json:"preds,omitempty"`
	Panic  string     `json:"panic,omitempty"`
	Hang   string     `json:"hang,omitempty"`
	Result string     `json:"result,omitempty"` // e.g. config update result
}

func J(v interface{}) string {
	b, err := json.Marshal(v)
	if err != nil {
		return "<" + err.Error() + ">"
	}
	return string(b)
}

// ContextTags lists the context tags of the monitor memory.
func ContextTags(mem map[string]string) []string {
	var tags []string
	for k := range mem {
		if strings.HasPrefix(k, "ctx:") {
			tags = append(tags, k[4:])
		}
	}
	sort.Strings(tags)
	return tags
}
