package world

import (
	"crypto/sha256"
	"encoding/hex"
	"encoding/json"
	"sort"
	"time"

	"github.com/apache/yunikorn-core/pkg/common/resources"
	"github.com/apache/yunikorn-core/pkg/scheduler"
	"github.com/apache/yunikorn-core/pkg/scheduler/objects"
	"github.com/apache/yunikorn-core/pkg/scheduler/ugm"
	"github.com/apache/yunikorn-core/pkg/webservice/dao"
)

func mustUnJ(s string, v interface{}) {
	if err := json.Unmarshal([]byte(s), v); err != nil {
		panic(err)
	}
}

func FromResource(r *resources.Resource) Res {
	o := Res{}
	if r == nil {
		return o
	}
	for k, v := range r.Resources {
		if v != 0 {
			o[k] = int64(v)
		}
	}
	return o
}

func fromDAO(m map[string]int64) Res {
	o := Res{}
	for k, v := range m {
		if v != 0 {
			o[k] = v
		}
	}
	return o
}

// daoMaxRes keeps explicit zero entries: a maximum of 0 is a limit, an absent type is unlimited.
func fromDAOKeepZero(m map[string]int64) map[string]int64 {
	if m == nil {
		return nil
	}
	o := map[string]int64{}
	for k, v := range m {
		o[k] = v
	}
	return o
}

type QueueSnap struct {
	Path         string            `json:"path"`
	Parent       string            `json:"parent"`
	State        string            `json:"state"`
	Managed      bool              `json:"managed"`
	Leaf         bool              `json:"leaf"`
	Max          map[string]int64  `json:"max"` // nil = not set; explicit zeros kept
	Guaranteed   map[string]int64  `json:"guar"`
	Allocated    Res               `json:"alloc"`
	Pending      Res               `json:"pending"`
	Preempting   Res               `json:"preempting"`
	Running      uint64            `json:"running"`
	MaxApps      uint64            `json:"maxApps"`
	AllocAcc     []string          `json:"allocAcc"`
	Reserved     map[string]int    `json:"reserved"`
	Apps         []string          `json:"apps"`
	Children     []string          `json:"children"`
	Props        map[string]string `json:"props"`
	SortPolicy   string            `json:"sort"`
	PrioSort     bool              `json:"prioSort"`
	PreemptOn    bool              `json:"preemptOn"`
	PreemptFence bool              `json:"preemptFence"`
	PrioFence    bool              `json:"prioFence"`
	PrioOffset   int32             `json:"prioOffset"`
	PreemptDelay string            `json:"preemptDelay"`
	QuotaDelay   string            `json:"quotaDelay"`
	CurPrio      int32             `json:"curPrio"`
	Template     string            `json:"template"`
	QPSet        bool              `json:"qpSet"`
	QPDue        bool              `json:"-"`
	// QPWhen is the part of the quota preemption start time that belongs to the state: "" (not set), "due" (start is
	// in the past or less than a minute away), "soon" (less than 100 minutes away) or "later". The scenarios use delays of
	// 1ns, 1h and 3h, so the class is
	// the same on every replay; without it a state whose start time was moved into the past by a reload would be merged
	// with the state reached by the direct reload (same queues, same flags) and never be expanded.
	QPWhen    string           `json:"qpWhen"`
	QPRunning bool             `json:"qpRunning"`
	HeadRoom  map[string]int64 `json:"headroom"`
	EffMax    map[string]int64 `json:"effMax"`
}

type AskSnap struct {
	Res       Res    `json:"res"`
	Allocated bool   `json:"allocated"`
	Ph        bool   `json:"ph,omitempty"`
	TG        string `json:"tg,omitempty"`
	Req       string `json:"req,omitempty"`
	Prio      int32  `json:"prio,omitempty"`
	Triggered bool   `json:"trig,omitempty"`
	ScaleUp   bool   `json:"scale,omitempty"`
	Attempted bool   `json:"att,omitempty"`
	Released  bool   `json:"released,omitempty"`
	Preempted bool   `json:"preempted,omitempty"`
	Node      string `json:"node,omitempty"`
	Release   string `json:"release,omitempty"`
}

type AllocSnap struct {
	Node      string `json:"node"`
	Res       Res    `json:"res"`
	Ph        bool   `json:"ph,omitempty"`
	TG        string `json:"tg,omitempty"`
	Released  bool   `json:"released,omitempty"`
	Preempted bool   `json:"preempted,omitempty"`
	Release   string `json:"release,omitempty"`
	Req       string `json:"req,omitempty"`
	Prio      int32  `json:"prio,omitempty"`
	Orig      bool   `json:"orig,omitempty"`
	APS       bool   `json:"aps,omitempty"`
}

type PhDataSnap struct {
	Count    int64 `json:"count"`
	Replaced int64 `json:"replaced"`
	TimedOut int64 `json:"timedOut"`
	Min      Res   `json:"min"`
}

type AppSnap struct {
	ID           string                `json:"id"`
	Where        string                `json:"where"` // active | completed | rejected
	State        string                `json:"state"`
	Queue        string                `json:"queue"`
	HasQueue     bool                  `json:"hasQueue"`
	User         string                `json:"user"`
	Groups       []string              `json:"groups"`
	Allocated    Res                   `json:"alloc"`
	Placeholder  Res                   `json:"phAlloc"`
	Pending      Res                   `json:"pending"`
	Asks         map[string]AskSnap    `json:"asks"`
	Allocs       map[string]AllocSnap  `json:"allocs"`
	Reservations map[string]string     `json:"reservations"`
	PhData       map[string]PhDataSnap `json:"phData"`
	TimerPh      bool                  `json:"timerPh"`
	TimerState   bool                  `json:"timerState"`
	StateLog     []string              `json:"-"`
	Sorted       []string              `json:"sorted"`
	Rank         int                   `json:"rank"`
	Forced       bool                  `json:"forced,omitempty"`
	Rejected     string                `json:"-"`
}

type NodeAllocSnap struct {
	App     string `json:"app"`
	Res     Res    `json:"res"`
	Foreign bool   `json:"foreign,omitempty"`
	Ph      bool   `json:"ph,omitempty"`
}

type NodeSnap struct {
	Cap          Res                      `json:"cap"`
	Occupied     Res                      `json:"occ"`
	Allocated    Res                      `json:"alloc"`
	Available    Res                      `json:"avail"`
	Schedulable  bool                     `json:"sched"`
	Allocs       map[string]NodeAllocSnap `json:"allocs"`
	Reservations map[string]string        `json:"reservations"` // ask key -> app
}

type TrackSnap struct {
	Usage   Res              `json:"usage"`
	Apps    []string         `json:"apps"`
	Max     map[string]int64 `json:"max"`
	MaxApps uint64           `json:"maxApps"`
}

type UserSnap struct {
	Queues map[string]TrackSnap `json:"queues"`
	Groups map[string]string    `json:"groups"` // app -> group
}

type GroupSnap struct {
	Queues map[string]TrackSnap `json:"queues"`
	Apps   []string             `json:"apps"`
}

type PartSnap struct {
	Name         string            `json:"name"`
	State        string            `json:"state"`
	Total        Res               `json:"total"`
	Allocations  int               `json:"allocations"`
	PhAllocs     int               `json:"phAllocs"`
	Reservations int               `json:"reservations"`
	NodeSort     string            `json:"nodeSort"`
	Preemption   bool              `json:"preemption"`
	QuotaPreempt bool              `json:"quotaPreempt"`
	Foreign      map[string]string `json:"foreign"`
	NodeOrder    []string          `json:"nodeOrder"`
	Rules        string            `json:"rules"`
}

// Snap is the complete observable state of the real core plus the shim model and the monitor memory.
type Snap struct {
	Part   PartSnap              `json:"part"`
	Queues map[string]*QueueSnap `json:"queues"`
	Apps   map[string]*AppSnap   `json:"apps"`
	Nodes  map[string]*NodeSnap  `json:"nodes"`
	Users  map[string]*UserSnap  `json:"users"`
	Groups map[string]*GroupSnap `json:"groups"`
	Shim   *ShimModel            `json:"shim"`
	Mem    map[string]string     `json:"mem"`
	Gone   bool                  `json:"gone,omitempty"` // partition removed
}

func sortedKeys[V any](m map[string]V) []string {
	ks := make([]string, 0, len(m))
	for k := range m {
		ks = append(ks, k)
	}
	sort.Strings(ks)
	return ks
}

func snapQueue(q *objects.Queue, out map[string]*QueueSnap) {
	d := q.GetPartitionQueueDAOInfo(false)
	qs := &QueueSnap{
		Path: d.QueueName, Parent: d.Parent, State: d.Status, Managed: d.IsManaged, Leaf: d.IsLeaf,
		Max: fromDAOKeepZero(d.MaxResource), Guaranteed: fromDAOKeepZero(d.GuaranteedResource),
		Allocated: fromDAO(d.AllocatedResource), Pending: fromDAO(d.PendingResource), Preempting: fromDAO(d.PreemptingResource),
		Running: d.RunningApps, MaxApps: d.MaxRunningApps, AllocAcc: append([]string{}, d.AllocatingAcceptedApps...),
		Reserved: map[string]int{}, Props: d.Properties, SortPolicy: d.SortingPolicy, PrioSort: d.PrioritySorting,
		PreemptOn: d.PreemptionEnabled, PreemptFence: d.IsPreemptionFence, PrioFence: d.IsPriorityFence, PrioOffset: d.PriorityOffset,
		PreemptDelay: d.PreemptionDelay, QuotaDelay: d.QuotaPreemptionDelay, CurPrio: d.CurrentPriority,
		Template: J(d.TemplateInfo), HeadRoom: fromDAOKeepZero(d.HeadRoom),
	}
	sort.Strings(qs.AllocAcc)
	for k, v := range q.GetReservedApps() {
		qs.Reserved[k] = v
	}
	qs.Apps = sortedKeys(q.GetCopyOfApps())
	children := q.GetCopyOfChildren()
	for _, c := range children {
		qs.Children = append(qs.Children, c.GetQueuePath())
	}
	sort.Strings(qs.Children)
	qs.QPSet, qs.QPDue, qs.QPRunning = q.VerifQuotaPreemptionState()
	if start := q.VerifQuotaPreemptionStart(); !start.IsZero() {
		switch d := time.Until(start); {
		case d < time.Minute:
			qs.QPWhen = "due"
		case d < 100*time.Minute:
			qs.QPWhen = "soon"
		default:
			qs.QPWhen = "later"
		}
	}
	if em := q.GetMaxResource(); em != nil {
		qs.EffMax = map[string]int64{}
		for k, v := range em.Resources {
			qs.EffMax[k] = int64(v)
		}
	}
	out[qs.Path] = qs
	for _, c := range children {
		snapQueue(c, out)
	}
}

func snapApp(app *objects.Application, where string) *AppSnap {
	as := &AppSnap{
		ID: app.ApplicationID, Where: where, State: app.CurrentState(), Queue: app.GetQueuePath(), HasQueue: app.GetQueue() != nil,
		User: app.GetUser().User, Groups: append([]string{}, app.GetUser().Groups...),
		Allocated: FromResource(app.GetAllocatedResource()), Placeholder: FromResource(app.GetPlaceholderResource()),
		Pending: FromResource(app.GetPendingResource()),
		Asks:    map[string]AskSnap{}, Allocs: map[string]AllocSnap{}, Reservations: app.VerifReservations(), PhData: map[string]PhDataSnap{},
		Sorted: app.VerifSortedRequestKeys(), Forced: app.IsCreateForced(),
	}
	as.TimerPh, as.TimerState = app.VerifTimers()
	for _, a := range app.GetAllRequests() {
		s := AskSnap{Res: FromResource(a.GetAllocatedResource()), Allocated: a.IsAllocated(), Ph: a.IsPlaceholder(), TG: a.GetTaskGroup(),
			Req: a.GetRequiredNode(), Prio: a.GetPriority(), Triggered: a.HasTriggeredPreemption(), ScaleUp: a.HasTriggeredScaleUp(),
			Attempted: a.IsSchedulingAttempted(), Released: a.IsReleased(), Preempted: a.IsPreempted(), Node: a.GetNodeID()}
		if r := a.GetRelease(); r != nil {
			s.Release = r.GetAllocationKey()
		}
		as.Asks[a.GetAllocationKey()] = s
	}
	for _, a := range app.GetAllAllocations() {
		s := AllocSnap{Node: a.GetNodeID(), Res: FromResource(a.GetAllocatedResource()), Ph: a.IsPlaceholder(), TG: a.GetTaskGroup(),
			Released: a.IsReleased(), Preempted: a.IsPreempted(), Req: a.GetRequiredNode(), Prio: a.GetPriority(), Orig: a.IsOriginator(), APS: a.IsAllowPreemptSelf()}
		if r := a.GetRelease(); r != nil {
			s.Release = r.GetAllocationKey()
		}
		as.Allocs[a.GetAllocationKey()] = s
	}
	for _, p := range app.GetAllPlaceholderData() {
		as.PhData[p.TaskGroupName] = PhDataSnap{Count: p.Count, Replaced: p.Replaced, TimedOut: p.TimedOut, Min: FromResource(p.MinResource)}
	}
	for _, e := range app.GetStateLog() {
		as.StateLog = append(as.StateLog, e.ApplicationState)
	}
	return as
}

func flattenTrack(d *dao.ResourceUsageDAOInfo, out map[string]TrackSnap) {
	if d == nil {
		return
	}
	apps := append([]string{}, d.RunningApplications...)
	sort.Strings(apps)
	out[d.QueuePath] = TrackSnap{Usage: fromDAO(d.ResourceUsage), Apps: apps, Max: fromDAOKeepZero(d.MaxResources), MaxApps: d.MaxApplications}
	for _, c := range d.Children {
		flattenTrack(c, out)
	}
}

// Snapshot reads the complete observable state through exported getters / DAOs and the verif hooks.
func (w *World) Snapshot() *Snap {
	s := &Snap{Queues: map[string]*QueueSnap{}, Apps: map[string]*AppSnap{}, Nodes: map[string]*NodeSnap{},
		Users: map[string]*UserSnap{}, Groups: map[string]*GroupSnap{}, Shim: w.Model.Clone(), Mem: map[string]string{}}
	for k, v := range w.Mem {
		s.Mem[k] = v
	}
	pc := w.CC.GetPartition(PartitionName)
	if pc == nil {
		s.Gone = true
		return s
	}
	snapPartition(pc, s)
	for _, ut := range ugm.GetUserManager().GetUserTrackers() {
		d := ut.GetResourceUsageDAOInfo()
		us := &UserSnap{Queues: map[string]TrackSnap{}, Groups: map[string]string{}}
		flattenTrack(d.Queues, us.Queues)
		for k, v := range d.Groups {
			us.Groups[k] = v
		}
		s.Users[d.UserName] = us
	}
	for _, gt := range ugm.GetUserManager().GetGroupTrackers() {
		d := gt.GetResourceUsageDAOInfo()
		gs := &GroupSnap{Queues: map[string]TrackSnap{}, Apps: append([]string{}, d.Applications...)}
		sort.Strings(gs.Apps)
		flattenTrack(d.Queues, gs.Queues)
		s.Groups[d.GroupName] = gs
	}
	return s
}

func snapPartition(pc *scheduler.PartitionContext, s *Snap) {
	a, p, r := pc.VerifCounters()
	s.Part = PartSnap{Name: pc.Name, State: pc.GetCurrentState(), Total: FromResource(pc.GetTotalPartitionResource()),
		Allocations: a, PhAllocs: p, Reservations: r, NodeSort: pc.GetNodeSortingPolicyType().String(),
		Preemption: pc.IsPreemptionEnabled(), QuotaPreempt: pc.IsQuotaPreemptionEnabled(), Foreign: pc.VerifForeignAllocs(),
		Rules: J(pc.GetPlacementRules())}
	snapQueue(pc.VerifRoot(), s.Queues)
	active, completed, rejected := pc.VerifAllApplications()
	type ranked struct {
		id string
		t  int64
	}
	var order []ranked
	for _, app := range active {
		s.Apps[app.ApplicationID] = snapApp(app, "active")
		order = append(order, ranked{app.ApplicationID, app.GetSubmissionTime().UnixNano()})
	}
	for _, app := range completed {
		if _, ok := s.Apps[app.ApplicationID]; !ok {
			s.Apps[app.ApplicationID] = snapApp(app, "completed")
		} else {
			s.Apps[app.ApplicationID+"#completed"] = snapApp(app, "completed")
		}
	}
	for _, app := range rejected {
		if _, ok := s.Apps[app.ApplicationID]; !ok {
			s.Apps[app.ApplicationID] = snapApp(app, "rejected")
		} else {
			s.Apps[app.ApplicationID+"#rejected"] = snapApp(app, "rejected")
		}
	}
	sort.Slice(order, func(i, j int) bool {
		if order[i].t != order[j].t {
			return order[i].t < order[j].t
		}
		return order[i].id < order[j].id
	})
	for i, o := range order {
		s.Apps[o.id].Rank = i
	}
	for _, n := range pc.GetNodes() {
		ns := &NodeSnap{Cap: FromResource(n.GetCapacity()), Occupied: FromResource(n.GetOccupiedResource()),
			Allocated: FromResource(n.GetAllocatedResource()), Available: FromResource(n.GetAvailableResource()),
			Schedulable: n.IsSchedulable(), Allocs: map[string]NodeAllocSnap{}, Reservations: n.VerifReservationDetails()}
		for _, al := range n.GetYunikornAllocations() {
			ns.Allocs[al.GetAllocationKey()] = NodeAllocSnap{App: al.GetApplicationID(), Res: FromResource(al.GetAllocatedResource()), Ph: al.IsPlaceholder()}
		}
		for _, al := range n.GetForeignAllocations() {
			ns.Allocs[al.GetAllocationKey()] = NodeAllocSnap{App: al.GetApplicationID(), Res: FromResource(al.GetAllocatedResource()), Foreign: true}
		}
		s.Nodes[n.NodeID] = ns
	}
	if it := pc.GetFullNodeIterator(); it != nil {
		it.ForEachNode(func(n *objects.Node) bool {
			s.Part.NodeOrder = append(s.Part.NodeOrder, n.NodeID)
			return true
		})
	}
}

// Canon returns the canonical serialisation of the snapshot (state logs are kept: the life cycle monitor's
// memory is the log itself; timestamps, uuids, metrics and event history are not part of it).
func (s *Snap) Canon() string {
	return J(s)
}

func Hash(canon string) string {
	h := sha256.Sum256([]byte(canon))
	return hex.EncodeToString(h[:12])
}
