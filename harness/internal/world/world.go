package world

import (
	"fmt"
	"math"
	"os"
	"runtime"
	"runtime/debug"
	"sort"
	"strconv"
	"sync"
	"time"
	_ "unsafe"

	"go.uber.org/zap"

	"github.com/apache/yunikorn-core/pkg/common/configs"
	"github.com/apache/yunikorn-core/pkg/log"
	"github.com/apache/yunikorn-core/pkg/plugins"
	"github.com/apache/yunikorn-core/pkg/rmproxy/rmevent"
	"github.com/apache/yunikorn-core/pkg/scheduler"
	"github.com/apache/yunikorn-core/pkg/scheduler/objects"
	"github.com/apache/yunikorn-core/pkg/scheduler/ugm"
	siCommon "github.com/apache/yunikorn-scheduler-interface/lib/go/common"
	"github.com/apache/yunikorn-scheduler-interface/lib/go/si"
)

const (
	RMID          = "rm"
	PartitionName = "[rm]default"
	PolicyGroup   = "policygroup"
)

//go:linkname verifMapMode internal/runtime/maps.VerifMapMode
var verifMapMode uint64

// SetMapMode fixes the start offset of every map iteration (1..8); 0 restores Go's random order.
func SetMapMode(m int) { verifMapMode = uint64(m) }
func MapMode() int     { return int(verifMapMode) }

var initOnce sync.Once
var baseGoroutines int

// InitProcess prepares the process-global singletons once: no-op logger, long timers.
func InitProcess() {
	initOnce.Do(func() {
		if m := os.Getenv("VERIF_MAPMODE"); m != "" {
			if v, err := strconv.Atoi(m); err == nil {
				SetMapMode(v)
			}
		}
		cfg := zap.NewProductionConfig()
		if os.Getenv("VERIF_LOG") != "" {
			// debugging aid: the core's own log on stderr
			dcfg := zap.NewDevelopmentConfig()
			if l, err := dcfg.Build(); err == nil {
				log.InitializeLogger(l, &dcfg)
			}
		} else {
			log.InitializeLogger(zap.NewNop(), &cfg)
		}
		objects.SetCompletingTimeout(time.Hour)
		if os.Getenv("VERIF_GC") == "" {
			debug.SetGCPercent(400)
		}
	})
}

// predicate plugin: table driven, logs every call.
type rmCallback struct {
	mu      sync.Mutex
	deny    map[[2]string]bool
	denyPre map[[2]string]bool
	calls   []PredCall
	states  []string
}

func (c *rmCallback) UpdateAllocation(*si.AllocationResponse) error   { return nil }
func (c *rmCallback) UpdateApplication(*si.ApplicationResponse) error { return nil }
func (c *rmCallback) UpdateNode(*si.NodeResponse) error               { return nil }
func (c *rmCallback) SendEvent([]*si.EventRecord)                     {}
func (c *rmCallback) UpdateContainerSchedulingState(r *si.UpdateContainerSchedulingStateRequest) {
	c.mu.Lock()
	c.states = append(c.states, r.AllocationKey)
	c.mu.Unlock()
}
func (c *rmCallback) Predicates(a *si.PredicatesArgs) error {
	c.mu.Lock()
	defer c.mu.Unlock()
	ok := !c.deny[[2]string{a.AllocationKey, a.NodeID}]
	c.calls = append(c.calls, PredCall{Key: a.AllocationKey, Node: a.NodeID, Allocate: a.Allocate, OK: ok})
	if !ok {
		return fmt.Errorf("predicate denies %s on %s", a.AllocationKey, a.NodeID)
	}
	return nil
}
func (c *rmCallback) PreemptionPredicates(a *si.PreemptionPredicatesArgs) *si.PreemptionPredicatesResponse {
	c.mu.Lock()
	defer c.mu.Unlock()
	if c.deny[[2]string{a.AllocationKey, a.NodeID}] || c.denyPre[[2]string{a.AllocationKey, a.NodeID}] {
		return &si.PreemptionPredicatesResponse{Success: false, Index: -1}
	}
	// all offered victims are needed: succeeds at the last index
	return &si.PreemptionPredicatesResponse{Success: true, Index: int32(len(a.PreemptAllocationKeys)) - 1} //nolint:gosec
}

// World is one instance of the real core plus the mock shim.
type World struct {
	Scn        *Scenario
	CC         *scheduler.ClusterContext
	Rec        *Recorder
	CB         *rmCallback
	Model      *ShimModel
	Mem        map[string]string // monitor memory (part of the canonical state)
	Dead       string            // non-empty after a panic or hang: the instance must not be used any more
	Trace      []Step
	apps       []*objects.Application
	appGroup   map[string]string // application -> group its usage is tracked under (after the previous op)
	failingAsk [2]string         // application and key of an ask sent to a failing application by the current op
	late       map[string]func() // expired state timer callbacks that have not run yet (TIMER_STATE_EXPIRE / TIMER_STATE_LATE)
}

func settle(limit time.Duration) bool {
	deadline := time.Now().Add(limit)
	spins := 0
	for runtime.NumGoroutine() > baseGoroutines {
		spins++
		if spins < 200 {
			runtime.Gosched()
		} else {
			time.Sleep(20 * time.Microsecond)
		}
		if spins%1000 == 0 && time.Now().After(deadline) {
			return false
		}
	}
	return true
}

// New builds a fresh core from the scenario's initial configuration and applies the scripted prefix.
func New(scn *Scenario) (*World, error) {
	InitProcess()
	resetGlobals()
	if scn.Reserve {
		objects.SetReservationDelay(0)
	} else {
		objects.SetReservationDelay(time.Duration(math.MaxInt64))
	}
	if scn.Preempt {
		objects.VerifSetTimings(0, 1000*time.Hour)
	} else {
		objects.VerifSetTimings(1000*time.Hour, 1000*time.Hour)
	}
	configs.SetConfigMap(scn.ExtraConfig)
	w := &World{Scn: scn, Rec: &Recorder{}, Model: NewShimModel(), Mem: map[string]string{}}
	w.CB = &rmCallback{deny: map[[2]string]bool{}, denyPre: map[[2]string]bool{}}
	for _, d := range scn.Deny {
		w.CB.deny[d] = true
	}
	for _, d := range scn.DenyPre {
		w.CB.denyPre[d] = true
	}
	if baseGoroutines == 0 {
		// first world of the process: create one throw-away context so that lazily started singletons
		// (user group cache cleaner) exist before the goroutine baseline is taken.
		cc0, err := scheduler.NewClusterContext(RMID, PolicyGroup, []byte(scn.Configs[0]))
		if err != nil {
			return nil, err
		}
		cc0.VerifStopManagers()
		time.Sleep(20 * time.Millisecond)
		last, stable := runtime.NumGoroutine(), 0
		for stable < 5 {
			time.Sleep(5 * time.Millisecond)
			n := runtime.NumGoroutine()
			if n == last {
				stable++
			} else {
				stable, last = 0, n
			}
		}
		baseGoroutines = last
		resetGlobals()
	}
	plugins.RegisterSchedulerPlugin(w.CB)
	cc, err := scheduler.NewClusterContext(RMID, PolicyGroup, []byte(scn.Configs[0]))
	if err != nil {
		return nil, err
	}
	cc.VerifStopManagers()
	cc.VerifSetEventHandler(w.Rec)
	w.CC = cc
	if !settle(30 * time.Second) {
		return nil, fmt.Errorf("harness: world did not settle after creation (goroutines %d, base %d)", runtime.NumGoroutine(), baseGoroutines)
	}
	for _, op := range scn.Prefix {
		st := w.Apply(op)
		if st.Panic != "" || st.Hang != "" {
			return w, fmt.Errorf("harness: prefix op %s failed: %s%s", op, st.Panic, st.Hang)
		}
	}
	return w, nil
}

func resetGlobals() {
	m := ugm.GetUserManager()
	m.ClearUserTrackers()
	m.ClearGroupTrackers()
	m.ClearConfigLimits()
	plugins.UnregisterSchedulerPlugins()
}

// Close stops every timer of the instance so that nothing of it can touch process-global state later.
func (w *World) Close() {
	if w.CC == nil {
		return
	}
	if w.Dead == "" {
		if pc := w.CC.GetPartition(PartitionName); pc != nil {
			a, c, r := pc.VerifAllApplications()
			for _, m := range []map[string]*objects.Application{a, c, r} {
				for _, app := range m {
					app.VerifStopTimers()
				}
			}
		}
	}
	for _, app := range w.apps {
		if w.Dead == "" {
			app.VerifStopTimers()
		}
	}
	w.CC.VerifForgetManagers()
	w.CC = nil
}

func (w *World) part() *scheduler.PartitionContext { return w.CC.GetPartition(PartitionName) }

// ---------------------------------------------------------------- enabled ops

// Enabled lists, in a canonical simplest-first order, every request the shim may legally send next plus the
// internal events (scheduling cycle, timers, cleaners) that may happen next.
func (w *World) Enabled() []Op {
	s := w.Scn
	m := w.Model
	var ops []Op
	add := func(o Op) {
		if s.Has(o.K) {
			ops = append(ops, o)
		}
	}
	add(Op{K: "SCHEDULE"})
	for _, n := range s.Nodes {
		if _, ok := m.Nodes[n.ID]; !ok {
			add(Op{K: "NODE_ADD", A: n.ID})
			add(Op{K: "NODE_ADD_DRAINED", A: n.ID})
		} else {
			add(Op{K: "NODE_REMOVE", A: n.ID})
			if m.Nodes[n.ID] == "active" {
				add(Op{K: "NODE_DRAIN", A: n.ID})
			} else {
				add(Op{K: "NODE_UNDRAIN", A: n.ID})
			}
			for i, c := range n.Caps {
				if !c.Equal(m.NodeCap[n.ID]) {
					add(Op{K: "NODE_CAP", A: n.ID, N: i})
				}
			}
		}
	}
	for _, a := range s.Apps {
		st, ok := m.Apps[a.ID]
		if !ok {
			add(Op{K: "APP_ADD", A: a.ID})
		} else if st == "accepted" {
			add(Op{K: "APP_REMOVE", A: a.ID})
		}
	}
	for _, a := range s.Asks {
		if m.Apps[a.App] != "accepted" {
			continue
		}
		if !m.Used[a.Key] {
			if a.BoundNode != "" {
				if _, ok := m.Nodes[a.BoundNode]; ok {
					add(Op{K: "ASK_BOUND", A: a.Key})
				}
			} else {
				add(Op{K: "ASK", A: a.Key})
				// the shim batches "task created" and "task cancelled" of the same task into one update
				add(Op{K: "ASK_RELEASE", A: a.Key})
			}
		} else if _, known := m.Keys[a.Key]; !known && a.BoundNode == "" && !m.Reused[a.Key] {
			// the first use of the key is over for the shim (released and confirmed, or withdrawn): a new task may carry
			// the same key (once)
			busy := false
			for _, p := range m.Pending {
				if p.Key == a.Key {
					busy = true
				}
			}
			if !busy {
				add(Op{K: "ASK_AGAIN", A: a.Key})
			}
		}
		if ks, ok := m.Keys[a.Key]; ok && m.Used[a.Key] {
			if len(a.Resize) > 0 && !m.Resized[a.Key] && (ks.State == "ask" || ks.State == "bound") {
				add(Op{K: "ASK_RESIZE", A: a.Key})
			}
			if a.BindNode != "" && ks.State == "ask" {
				if _, ok := m.Nodes[a.BindNode]; ok {
					add(Op{K: "ASK_BIND", A: a.Key})
				}
			}
		}
	}
	for _, k := range sortedKeys(m.Keys) {
		ks := m.Keys[k]
		if m.Apps[ks.App] == "accepted" || m.Apps[ks.App] == "removed" {
			pending := false
			for _, p := range m.Pending {
				if p.Key == k {
					pending = true
				}
			}
			if !pending {
				add(Op{K: "RELEASE", A: k})
			}
		}
	}
	// a release without allocation key: "release every allocation of this application"
	for _, a := range s.Apps {
		if m.Apps[a.ID] != "accepted" {
			continue
		}
		bound, pending := false, false
		for _, k := range sortedKeys(m.Keys) {
			if ks := m.Keys[k]; ks.App == a.ID && ks.State == "bound" {
				bound = true
			}
		}
		for _, p := range m.Pending {
			if p.App == a.ID {
				pending = true
			}
		}
		if bound && !pending {
			add(Op{K: "RELEASE_ALL", A: a.ID})
		}
	}
	for _, f := range s.Foreign {
		if _, ok := m.Foreign[f.Key]; !ok {
			if _, nodeOK := m.Nodes[f.Node]; nodeOK && m.ForeignV[f.Key] == 0 {
				add(Op{K: "FOREIGN_ADD", A: f.Key})
			}
		} else {
			if len(f.Res2) > 0 && (m.ForeignV[f.Key] == 1 || m.ForeignV[f.Key] == 2) {
				add(Op{K: "FOREIGN_UPDATE", A: f.Key})
			}
			add(Op{K: "FOREIGN_REMOVE", A: f.Key})
		}
	}
	for i := range m.Pending {
		add(Op{K: "CONFIRM", N: i})
	}
	if m.Dups < s.MaxConfirmDup {
		for i := range m.Confirmed {
			add(Op{K: "CONFIRM_DUP", N: i})
		}
	}
	// internal events that depend on the real state (the state is hashed, so this stays a function of it)
	if pc := w.part(); pc != nil {
		active, completed, rejected := pc.VerifAllApplications()
		type ta struct {
			id     string
			ph, st bool
		}
		var tas []ta
		for _, mm := range []map[string]*objects.Application{active, completed, rejected} {
			for _, app := range mm {
				ph, st := app.VerifTimers()
				tas = append(tas, ta{app.ApplicationID, ph, st})
			}
		}
		sort.Slice(tas, func(i, j int) bool { return tas[i].id < tas[j].id })
		for _, t := range tas {
			if t.ph {
				add(Op{K: "TIMER_PH", A: t.id})
			}
			if t.st {
				add(Op{K: "TIMER_STATE", A: t.id})
				if w.late[t.id] == nil {
					add(Op{K: "TIMER_STATE_EXPIRE", A: t.id})
				}
			}
		}
	}
	for _, id := range sortedKeys(w.late) {
		add(Op{K: "TIMER_STATE_LATE", A: id})
	}
	for i := range s.Configs {
		if i != m.Config {
			add(Op{K: "CONFIG", N: i})
		}
	}
	add(Op{K: "QUOTA_PREEMPT"})
	add(Op{K: "CLEAN_QUEUES"})
	add(Op{K: "CLEAN_EXPIRED"})
	add(Op{K: "OUTSTANDING"})
	add(Op{K: "REMOVE_PARTITION"})
	return ops
}

// ---------------------------------------------------------------- apply

func (w *World) nodeInfo(id string, action si.NodeInfo_ActionFromRM, cap Res) *si.NodeInfo {
	ni := &si.NodeInfo{NodeID: id, Action: action, Attributes: map[string]string{siCommon.NodePartition: PartitionName, siCommon.HostName: id}}
	if cap != nil {
		ni.SchedulableResource = cap.ToProto()
	}
	return ni
}

func (w *World) askToSI(a *AskSpec, res Res, node string) *si.Allocation {
	tags := map[string]string{siCommon.CreationTime: strconv.FormatInt(a.Create, 10)}
	if a.RequiredNode != "" {
		tags[siCommon.DomainYuniKorn+siCommon.KeyRequiredNode] = a.RequiredNode
	}
	return &si.Allocation{
		AllocationKey: a.Key, ApplicationID: a.App, PartitionName: PartitionName, ResourcePerAlloc: res.ToProto(),
		Priority: a.Prio, Placeholder: a.Placeholder, TaskGroupName: a.TaskGroup, Originator: a.Originator, NodeID: node,
		AllocationTags:   tags,
		PreemptionPolicy: &si.PreemptionPolicy{AllowPreemptSelf: a.AllowPreemptSelf, AllowPreemptOther: a.AllowPreemptOther},
	}
}

func (w *World) appToSI(a *AppSpec) *si.AddApplicationRequest {
	tags := map[string]string{}
	for k, v := range a.Tags {
		tags[k] = v
	}
	if a.Forced {
		tags[siCommon.AppTagCreateForce] = "true"
	}
	req := &si.AddApplicationRequest{ApplicationID: a.ID, QueueName: a.Queue, PartitionName: PartitionName, Tags: tags,
		ExecutionTimeoutMilliSeconds: 3600 * 1000, GangSchedulingStyle: a.Gang}
	if !a.NilUGI {
		req.Ugi = &si.UserGroupInformation{User: a.User, Groups: append([]string{}, a.Groups...)}
	}
	if len(a.PlaceholderAsk) > 0 {
		req.PlaceholderAsk = a.PlaceholderAsk.ToProto()
	}
	return req
}

func (w *World) sendAlloc(allocs []*si.Allocation, rels []*si.AllocationRelease) {
	req := &si.AllocationRequest{RmID: RMID, Allocations: allocs}
	if rels != nil {
		req.Releases = &si.AllocationReleasesRequest{AllocationsToRelease: rels}
	}
	w.CC.VerifHandleAllocEvent(&rmevent.RMUpdateAllocationEvent{Request: req})
}

// SendRaw* inject arbitrary (possibly malformed) requests; used by the C13 catalogue.
func (w *World) SendRawAlloc(req *si.AllocationRequest) {
	w.CC.VerifHandleAllocEvent(&rmevent.RMUpdateAllocationEvent{Request: req})
}
func (w *World) SendRawApp(req *si.ApplicationRequest) {
	w.CC.VerifHandleAppEvent(&rmevent.RMUpdateApplicationEvent{Request: req})
}
func (w *World) SendRawNode(req *si.NodeRequest) {
	w.CC.VerifHandleNodeEvent(&rmevent.RMUpdateNodeEvent{Request: req})
}

// Run executes f as one step with panic capture, hang watchdog and the settle barrier.
func (w *World) Run(op Op, f func()) *Step {
	st := &Step{Op: op}
	if w.Dead != "" {
		st.Panic = "world is dead: " + w.Dead
		return st
	}
	w.CB.mu.Lock()
	w.CB.calls = nil
	w.CB.mu.Unlock()
	run := func() {
		defer func() {
			if r := recover(); r != nil {
				st.Panic = fmt.Sprintf("%v\n%s", r, debug.Stack())
			}
		}()
		f()
		if w.failingAsk[0] != "" {
			if app := w.findApp(w.failingAsk[0]); app != nil && app.GetAllocationAsk(w.failingAsk[1]) != nil {
				w.Mem["ctx:ask-on-failing-app"] = "1"
			}
			w.failingAsk = [2]string{}
		}
	}
	if !w.Scn.Watchdog {
		// inline: a deadlock here is caught by the coordinator's per-item watchdog (harness error with the path)
		run()
	} else {
		done := make(chan struct{})
		go func() {
			defer close(done)
			run()
		}()
		timer := time.NewTimer(20 * time.Second)
		select {
		case <-done:
			timer.Stop()
		case <-timer.C:
			buf := make([]byte, 1<<20)
			n := runtime.Stack(buf, true)
			st.Hang = "operation did not return within 20s\n" + string(buf[:n])
			w.Dead = "hang in " + op.String()
			return st
		}
	}
	if st.Panic != "" {
		w.Dead = "panic in " + op.String()
		st.Out = w.Rec.Drain()
		return st
	}
	if !settle(30 * time.Second) {
		buf := make([]byte, 1<<20)
		n := runtime.Stack(buf, true)
		st.Hang = "goroutines did not settle within 30s after the operation\n" + string(buf[:n])
		w.Dead = "unsettled after " + op.String()
		return st
	}
	w.Rec.wg.Wait()
	st.Out = w.Rec.Drain()
	w.CB.mu.Lock()
	st.Preds = append([]PredCall{}, w.CB.calls...)
	w.CB.mu.Unlock()
	return st
}

// inflightSwaps returns, for the application, real ask key -> placeholder key of every in-flight replacement.
func inflightSwaps(app *objects.Application) map[string]string {
	res := map[string]string{}
	if app == nil {
		return res
	}
	allocs := map[string]bool{}
	for _, a := range app.GetAllAllocations() {
		allocs[a.GetAllocationKey()] = true
	}
	for _, r := range app.GetAllRequests() {
		if r.IsAllocated() && !allocs[r.GetAllocationKey()] && r.GetRelease() != nil {
			res[r.GetAllocationKey()] = r.GetRelease().GetAllocationKey()
		}
	}
	return res
}

// tagContext records rare history events ("context tags") in the monitor memory. They are part of the canonical
// state and are appended to violation fingerprints, so that a known finding is identified by the history that fails.
func (w *World) tagContext(op Op) {
	if w.CC == nil || w.Dead != "" {
		return
	}
	pc := w.part()
	if pc == nil {
		return
	}
	switch op.K {
	case "TIMER_PH":
		app := w.findApp(op.A)
		if len(inflightSwaps(app)) > 0 {
			w.Mem["ctx:ph-timeout-during-swap"] = "1"
		}
		if app != nil && !app.IsRunning() && !app.IsCompleting() {
			for _, a := range app.GetAllAllocations() {
				if !a.IsPlaceholder() {
					// the "nothing is running yet" branch of the timeout with a real allocation present
					w.Mem["ctx:ph-timeout-real-allocation-not-running"] = "1"
				}
			}
		}
	case "TIMER_STATE":
		if len(inflightSwaps(w.findApp(op.A))) > 0 {
			w.Mem["ctx:state-timeout-during-swap"] = "1"
		}
	case "RELEASE":
		if ks := w.Model.Keys[op.A]; ks != nil {
			sw := inflightSwaps(w.findApp(ks.App))
			if _, ok := sw[op.A]; ok {
				w.Mem["ctx:real-released-during-swap"] = "1"
			}
			for _, ph := range sw {
				if ph == op.A {
					w.Mem["ctx:placeholder-released-during-swap"] = "1"
				}
			}
		}
	case "APP_REMOVE":
		if len(inflightSwaps(w.findApp(op.A))) > 0 {
			w.Mem["ctx:app-removed-during-swap"] = "1"
		}
	case "ASK", "ASK_BOUND":
		if spec := w.Scn.Ask(op.A); spec != nil {
			if app := w.findApp(spec.App); app != nil && (app.IsFailing() || app.IsFailed()) {
				// the tag is set after the op, and only if the core accepted the ask (see Run)
				w.failingAsk = [2]string{spec.App, op.A}
			}
			if app := w.findApp(spec.App); app != nil && app.IsCompleting() && len(app.GetAllAllocations()) == 0 {
				// an application that emptied before it ever ran restarts from Completing: Completing -> Running without the admission gate
				w.Mem["ctx:restart-from-completing-never-ran"] = "1"
			}
		}
	}
}

// Apply sends one op to the real core and updates the shim model from the op and the core's answers.
func (w *World) Apply(op Op) *Step {
	s := w.Scn
	m := w.Model
	w.tagContext(op)
	var f func()
	switch op.K {
	case "SCHEDULE":
		f = func() { w.CC.VerifSchedule() }
	case "NODE_ADD", "NODE_ADD_DRAINED":
		n := s.Node(op.A)
		action := si.NodeInfo_CREATE
		if op.K == "NODE_ADD_DRAINED" {
			action = si.NodeInfo_CREATE_DRAIN
		}
		f = func() {
			w.CC.VerifHandleNodeEvent(&rmevent.RMUpdateNodeEvent{Request: &si.NodeRequest{RmID: RMID, Nodes: []*si.NodeInfo{w.nodeInfo(n.ID, action, n.Cap)}}})
		}
		m.NodeCap[n.ID] = n.Cap.Clone()
	case "NODE_REMOVE", "NODE_DRAIN", "NODE_UNDRAIN":
		action := map[string]si.NodeInfo_ActionFromRM{"NODE_REMOVE": si.NodeInfo_DECOMISSION, "NODE_DRAIN": si.NodeInfo_DRAIN_NODE, "NODE_UNDRAIN": si.NodeInfo_DRAIN_TO_SCHEDULABLE}[op.K]
		f = func() {
			w.CC.VerifHandleNodeEvent(&rmevent.RMUpdateNodeEvent{Request: &si.NodeRequest{RmID: RMID, Nodes: []*si.NodeInfo{w.nodeInfo(op.A, action, nil)}}})
		}
		switch op.K {
		case "NODE_REMOVE":
			delete(m.Nodes, op.A)
			delete(m.NodeCap, op.A)
			for k, n := range m.Foreign {
				if n == op.A {
					delete(m.Foreign, k) // the pods of a removed node are gone
					m.ForeignV[k] = 9
				}
			}
		case "NODE_DRAIN":
			m.Nodes[op.A] = "draining"
		case "NODE_UNDRAIN":
			m.Nodes[op.A] = "active"
		}
	case "NODE_CAP":
		n := s.Node(op.A)
		c := n.Caps[op.N]
		f = func() {
			w.CC.VerifHandleNodeEvent(&rmevent.RMUpdateNodeEvent{Request: &si.NodeRequest{RmID: RMID, Nodes: []*si.NodeInfo{w.nodeInfo(op.A, si.NodeInfo_UPDATE, c)}}})
		}
		m.NodeCap[op.A] = c.Clone()
		w.Mem["forced:"+op.A] = "1"
	case "APP_ADD":
		a := s.App(op.A)
		f = func() {
			w.CC.VerifHandleAppEvent(&rmevent.RMUpdateApplicationEvent{Request: &si.ApplicationRequest{RmID: RMID, New: []*si.AddApplicationRequest{w.appToSI(a)}}})
		}
		m.Apps[a.ID] = "submitted"
	case "APP_REMOVE":
		f = func() {
			w.CC.VerifHandleAppEvent(&rmevent.RMUpdateApplicationEvent{Request: &si.ApplicationRequest{RmID: RMID, Remove: []*si.RemoveApplicationRequest{{ApplicationID: op.A, PartitionName: PartitionName}}}})
		}
		m.Apps[op.A] = "removed"
		// the shim forgets everything of the application: pods are deleted together with it
		for k, ks := range m.Keys {
			if ks.App == op.A {
				delete(m.Keys, k)
			}
		}
		var keep []PendingRel
		for _, p := range m.Pending {
			if p.App != op.A {
				keep = append(keep, p)
			}
		}
		m.Pending = keep
	case "ASK":
		a := s.Ask(op.A)
		f = func() { w.sendAlloc([]*si.Allocation{w.askToSI(a, a.Res, "")}, nil) }
		m.Used[a.Key] = true
		m.Keys[a.Key] = &KeyState{App: a.App, State: "ask", Ph: a.Placeholder}
	case "ASK_AGAIN":
		a := s.Ask(op.A)
		f = func() { w.sendAlloc([]*si.Allocation{w.askToSI(a, a.Res, "")}, nil) }
		m.Reused[a.Key] = true
		m.Keys[a.Key] = &KeyState{App: a.App, State: "ask", Ph: a.Placeholder}
	case "ASK_RELEASE":
		// one AllocationRequest that carries the new ask and the release of the same key: after it the shim has no
		// outstanding ask for the key
		a := s.Ask(op.A)
		f = func() {
			w.sendAlloc([]*si.Allocation{w.askToSI(a, a.Res, "")}, []*si.AllocationRelease{{PartitionName: PartitionName, ApplicationID: a.App, AllocationKey: a.Key, TerminationType: si.TerminationType_STOPPED_BY_RM, Message: "shim release"}})
		}
		m.Used[a.Key] = true
	case "ASK_BOUND":
		a := s.Ask(op.A)
		f = func() { w.sendAlloc([]*si.Allocation{w.askToSI(a, a.Res, a.BoundNode)}, nil) }
		m.Used[a.Key] = true
		m.Keys[a.Key] = &KeyState{App: a.App, State: "bound", Node: a.BoundNode, Ph: a.Placeholder}
		w.Mem["forced:"+a.BoundNode] = "1"
		w.Mem["forcedq:"+a.App] = "1"
	case "ASK_RESIZE":
		a := s.Ask(op.A)
		node := m.Keys[a.Key].Node
		if m.Keys[a.Key].State != "bound" {
			node = ""
		}
		bound := node != ""
		if a.ResizeNoNode {
			node = ""
		}
		f = func() { w.sendAlloc([]*si.Allocation{w.askToSI(a, a.Resize, node)}, nil) }
		m.Resized[a.Key] = true
		if bound {
			w.Mem["forced:"+m.Keys[a.Key].Node] = "1"
			w.Mem["forcedq:"+a.App] = "1"
		}
	case "ASK_BIND":
		a := s.Ask(op.A)
		res := a.Res
		if m.Resized[a.Key] {
			res = a.Resize
		} else if a.BindResize && len(a.Resize) > 0 {
			res = a.Resize
			m.Resized[a.Key] = true
		}
		f = func() { w.sendAlloc([]*si.Allocation{w.askToSI(a, res, a.BindNode)}, nil) }
		m.Keys[a.Key].State = "bound"
		m.Keys[a.Key].Node = a.BindNode
		w.Mem["forced:"+a.BindNode] = "1"
		w.Mem["forcedq:"+a.App] = "1"
	case "TIMER_STATE_EXPIRE":
		f = func() {
			if app := w.findApp(op.A); app != nil {
				if cb := app.VerifExpireStateTimer(); cb != nil {
					if w.late == nil {
						w.late = map[string]func(){}
					}
					w.late[op.A] = cb
					w.Mem["late-timer:"+op.A] = app.CurrentState()
				}
			}
		}
	case "TIMER_STATE_LATE":
		cb := w.late[op.A]
		delete(w.late, op.A)
		delete(w.Mem, "late-timer:"+op.A)
		f = func() {
			if cb != nil {
				cb()
			}
		}
	case "RELEASE":
		ks := m.Keys[op.A]
		app := ks.App
		f = func() {
			w.sendAlloc(nil, []*si.AllocationRelease{{PartitionName: PartitionName, ApplicationID: app, AllocationKey: op.A, TerminationType: si.TerminationType_STOPPED_BY_RM, Message: "shim release"}})
		}
		delete(m.Keys, op.A)
	case "RELEASE_ALL":
		f = func() {
			w.sendAlloc(nil, []*si.AllocationRelease{{PartitionName: PartitionName, ApplicationID: op.A, AllocationKey: "", TerminationType: si.TerminationType_STOPPED_BY_RM, Message: "shim releases everything"}})
		}
		// the core drops the allocations and, with them, every outstanding ask of the application
		for _, k := range sortedKeys(m.Keys) {
			if ks := m.Keys[k]; ks.App == op.A && (ks.State == "bound" || ks.State == "ask") {
				delete(m.Keys, k)
			}
		}
	case "FOREIGN_ADD", "FOREIGN_UPDATE":
		fs := s.ForeignSpec(op.A)
		res := fs.Res
		if op.K == "FOREIGN_UPDATE" {
			// first update: to the second size; second update: back to the size it was registered with
			if m.ForeignV[fs.Key] == 1 {
				res = fs.Res2
				m.ForeignV[fs.Key] = 2
			} else {
				m.ForeignV[fs.Key] = 3
			}
		} else {
			m.ForeignV[fs.Key] = 1
		}
		typ := siCommon.AllocTypeDefault
		if fs.Static {
			typ = siCommon.AllocTypeStatic
		}
		f = func() {
			w.sendAlloc([]*si.Allocation{{AllocationKey: fs.Key, PartitionName: PartitionName, NodeID: fs.Node, ResourcePerAlloc: res.ToProto(),
				AllocationTags: map[string]string{siCommon.Foreign: typ, siCommon.CreationTime: "1000"}}}, nil)
		}
		m.Foreign[fs.Key] = fs.Node
		w.Mem["forced:"+fs.Node] = "1"
	case "FOREIGN_REMOVE":
		f = func() {
			w.sendAlloc(nil, []*si.AllocationRelease{{PartitionName: PartitionName, AllocationKey: op.A, TerminationType: si.TerminationType_STOPPED_BY_RM}})
		}
		delete(m.Foreign, op.A)
		m.ForeignV[op.A] = 9
	case "CONFIRM":
		p := m.Pending[op.N]
		f = func() {
			w.sendAlloc(nil, []*si.AllocationRelease{{PartitionName: PartitionName, ApplicationID: p.App, AllocationKey: p.Key, TerminationType: si.TerminationType(si.TerminationType_value[p.Term]), Message: "shim confirm"}})
		}
		m.Pending = append(append([]PendingRel{}, m.Pending[:op.N]...), m.Pending[op.N+1:]...)
		delete(m.Keys, p.Key)
		m.Confirmed = append(m.Confirmed, p)
		if len(m.Confirmed) > 2 {
			m.Confirmed = m.Confirmed[len(m.Confirmed)-2:]
		}
	case "CONFIRM_DUP":
		p := m.Confirmed[op.N]
		f = func() {
			w.sendAlloc(nil, []*si.AllocationRelease{{PartitionName: PartitionName, ApplicationID: p.App, AllocationKey: p.Key, TerminationType: si.TerminationType(si.TerminationType_value[p.Term]), Message: "shim confirm dup"}})
		}
		m.Dups++
	case "TIMER_PH", "TIMER_STATE":
		f = func() {
			if app := w.findApp(op.A); app != nil {
				if op.K == "TIMER_PH" {
					app.VerifFirePlaceholderTimer()
				} else {
					app.VerifFireStateTimer()
				}
			}
		}
	case "CONFIG":
		var result *rmevent.Result
		f = func() {
			c := make(chan *rmevent.Result, 2)
			w.CC.VerifConfigUpdate(&rmevent.RMConfigUpdateEvent{RmID: RMID, PolicyGroup: PolicyGroup, Config: s.Configs[op.N], ExtraConfig: s.ExtraConfig, Channel: c})
			result = <-c
			// partitions added by the reload start their manager goroutines: stop them like the initial ones
			w.CC.VerifStopManagers()
		}
		st := w.Run(op, f)
		if result != nil {
			if result.Succeeded {
				st.Result = "ok"
				m.Config = op.N
				w.Mem["reloaded"] = "1"
			} else {
				st.Result = "rejected: " + result.Reason
			}
		}
		w.absorb(st)
		return st
	case "QUOTA_PREEMPT":
		f = func() { w.CC.VerifQuotaPreemption() }
	case "CLEAN_QUEUES":
		f = func() {
			if pc := w.part(); pc != nil {
				pc.VerifCleanQueues()
			}
		}
	case "CLEAN_EXPIRED":
		f = func() {
			if pc := w.part(); pc != nil {
				pc.VerifCleanExpired()
			}
		}
	case "OUTSTANDING":
		f = func() { w.CC.VerifInspectOutstanding() }
	case "REMOVE_PARTITION":
		f = func() {
			c := make(chan *rmevent.Result, 2)
			w.CC.VerifRemovePartitions(&rmevent.RMPartitionsRemoveEvent{RmID: RMID, Channel: c})
			<-c
		}
	default:
		panic("unknown op kind " + op.K)
	}
	st := w.Run(op, f)
	w.absorb(st)
	return st
}

func (w *World) findApp(id string) *objects.Application {
	pc := w.part()
	if pc == nil {
		return nil
	}
	a, c, r := pc.VerifAllApplications()
	for _, m := range []map[string]*objects.Application{a, c, r} {
		for _, app := range m {
			if app.ApplicationID == id {
				return app
			}
		}
	}
	return nil
}

// absorb updates the shim model from the core's outbound messages of one step.
// noteGroupChanges sets a context tag when the group under which the usage of an application is tracked changes while
// the application holds allocations (a reload that adds or removes group limits changes which of the user's groups is
// resolved for it).
func (w *World) noteGroupChanges() {
	if w.CC == nil || w.Dead != "" {
		return
	}
	cur := map[string]string{}
	for _, ut := range ugm.GetUserManager().GetUserTrackers() {
		for app, g := range ut.GetResourceUsageDAOInfo().Groups {
			cur[app] = g
		}
	}
	if w.appGroup == nil {
		w.appGroup = map[string]string{}
	}
	for app, g := range cur {
		if g == "" {
			continue
		}
		// the last group an application was tracked under is remembered across reloads that drop its group tracker
		if old, ok := w.appGroup[app]; ok && old != g {
			if a := w.findApp(app); a != nil && len(a.GetAllAllocations()) > 0 {
				w.Mem["ctx:tracked-group-changed-with-live-allocations"] = "1"
			}
		}
		w.appGroup[app] = g
	}
}

func (w *World) absorb(st *Step) {
	m := w.Model
	w.noteGroupChanges()
	w.Trace = append(w.Trace, *st)
	for _, o := range st.Out {
		switch o.T {
		case "appacc":
			if m.Apps[o.App] == "submitted" {
				m.Apps[o.App] = "accepted"
			}
		case "apprej":
			if m.Apps[o.App] == "submitted" {
				m.Apps[o.App] = "rejected"
			}
		case "nodeacc":
			if st.Op.K == "NODE_ADD_DRAINED" {
				m.Nodes[o.Node] = "draining"
			} else {
				m.Nodes[o.Node] = "active"
			}
		case "noderej":
			delete(m.NodeCap, o.Node)
		case "allocrej":
			if ks, ok := m.Keys[o.Key]; ok && (st.Op.K == "ASK" || st.Op.K == "ASK_BOUND") && st.Op.A == o.Key {
				_ = ks
				delete(m.Keys, o.Key)
			}
			if st.Op.K == "FOREIGN_ADD" && st.Op.A == o.Key {
				delete(m.Foreign, o.Key)
			}
		case "newalloc":
			if ks, ok := m.Keys[o.Key]; ok {
				ks.State = "bound"
				ks.Node = o.Node
			}
		case "release":
			switch o.Term {
			case "STOPPED_BY_RM":
				if ks, ok := m.Keys[o.Key]; ok && ks.State == "bound" {
					ks.State = "zombie"
				}
			default:
				dup := false
				for _, p := range m.Pending {
					if p.Key == o.Key && p.Term == o.Term {
						dup = true
					}
				}
				if _, known := m.Keys[o.Key]; known && !dup {
					m.Pending = append(m.Pending, PendingRel{Key: o.Key, App: o.App, Term: o.Term})
				}
			}
		}
	}
	if m.Apps[st.Op.A] == "submitted" && st.Op.K == "APP_ADD" {
		m.Apps[st.Op.A] = "unanswered"
	}
}

// ---------------------------------------------------------------- raw message builders (recovery replay, malformed catalogue)

func (w *World) RawAsk(a *AskSpec, res Res, node string) *si.Allocation {
	return w.askToSI(a, res, node)
}

func (w *World) RawApp(a *AppSpec, force bool) *si.AddApplicationRequest {
	c := *a
	c.Forced = c.Forced || force
	return w.appToSI(&c)
}

func (w *World) RawNode(id string, action si.NodeInfo_ActionFromRM, cap Res) *si.NodeInfo {
	return w.nodeInfo(id, action, cap)
}

func (w *World) RawForeign(fs *ForeignSpec, res Res) *si.Allocation {
	typ := siCommon.AllocTypeDefault
	if fs.Static {
		typ = siCommon.AllocTypeStatic
	}
	return &si.Allocation{AllocationKey: fs.Key, PartitionName: PartitionName, NodeID: fs.Node, ResourcePerAlloc: res.ToProto(),
		AllocationTags: map[string]string{siCommon.Foreign: typ, siCommon.CreationTime: "1000"}}
}

// AskLogs returns, per outstanding ask, the reasons the scheduler logged for not allocating it (debugging aid).
func (w *World) AskLogs() map[string][]string {
	out := map[string][]string{}
	pc := w.part()
	if pc == nil {
		return out
	}
	active, _, _ := pc.VerifAllApplications()
	for _, app := range active {
		for _, a := range app.GetAllRequests() {
			for _, e := range a.GetAllocationLog() {
				out[a.GetAllocationKey()] = append(out[a.GetAllocationKey()], fmt.Sprintf("%s x%d", e.Message, e.Count))
			}
		}
	}
	return out
}
