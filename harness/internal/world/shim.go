package world

import (
	"fmt"
	"sync"

	"github.com/apache/yunikorn-core/pkg/rmproxy/rmevent"
	"github.com/apache/yunikorn-scheduler-interface/lib/go/si"
)

// KeyState is what the shim knows about one allocation key it submitted.
type KeyState struct {
	App   string `json:"app"`
	State string `json:"st"` // ask (outstanding) | bound | zombie (core announced STOPPED_BY_RM, pod not yet gone)
	Node  string `json:"node,omitempty"`
	Ph    bool   `json:"ph,omitempty"`
}

type PendingRel struct {
	Key  string `json:"key"`
	App  string `json:"app"`
	Term string `json:"term"`
}

// ShimModel is the shim's view of the protocol: what it submitted and what it was told.
// It is part of the canonical state (it determines which requests are legal next).
type ShimModel struct {
	Nodes     map[string]string    `json:"nodes"`   // id -> active | draining (absent: not registered)
	NodeCap   map[string]Res       `json:"nodeCap"` // capacity last reported by the shim
	Apps      map[string]string    `json:"apps"`    // id -> accepted | rejected | removed
	Keys      map[string]*KeyState `json:"keys"`
	Used      map[string]bool      `json:"used"` // ask keys ever submitted
	Pending   []PendingRel         `json:"pending,omitempty"`
	Confirmed []PendingRel         `json:"confirmed,omitempty"`
	Foreign   map[string]string    `json:"foreign,omitempty"` // key -> node
	ForeignV  map[string]int       `json:"foreignV,omitempty"`
	Config    int                  `json:"config"`
	Dups      int                  `json:"dups,omitempty"`
	Resized   map[string]bool      `json:"resized,omitempty"`
	Reused    map[string]bool      `json:"reused,omitempty"` // ask keys submitted a second time after the first use was over
}

func NewShimModel() *ShimModel {
	return &ShimModel{
		Nodes: map[string]string{}, NodeCap: map[string]Res{}, Apps: map[string]string{},
		Keys: map[string]*KeyState{}, Used: map[string]bool{}, Foreign: map[string]string{},
		ForeignV: map[string]int{}, Resized: map[string]bool{}, Reused: map[string]bool{},
	}
}

func (m *ShimModel) Clone() *ShimModel {
	var c ShimModel
	mustUnJ(J(m), &c)
	if c.Nodes == nil {
		c.Nodes = map[string]string{}
	}
	if c.NodeCap == nil {
		c.NodeCap = map[string]Res{}
	}
	if c.Apps == nil {
		c.Apps = map[string]string{}
	}
	if c.Keys == nil {
		c.Keys = map[string]*KeyState{}
	}
	if c.Used == nil {
		c.Used = map[string]bool{}
	}
	if c.Foreign == nil {
		c.Foreign = map[string]string{}
	}
	if c.ForeignV == nil {
		c.ForeignV = map[string]int{}
	}
	if c.Resized == nil {
		c.Resized = map[string]bool{}
	}
	if c.Reused == nil {
		c.Reused = map[string]bool{}
	}
	return &c
}

// Quiescent: nothing is awaiting a confirmation from the shim.
func (m *ShimModel) Quiescent() bool { return len(m.Pending) == 0 }

// Recorder is the handler.EventHandler given to the core: it records every outbound rmevent in order and
// answers the two synchronous ones from a helper goroutine (the core reads the channel after HandleEvent returns).
type Recorder struct {
	mu     sync.Mutex
	out    []Out
	groups int
	wg     sync.WaitGroup
}

func (r *Recorder) HandleEvent(ev interface{}) {
	r.mu.Lock()
	g := r.groups
	r.groups++
	switch v := ev.(type) {
	case *rmevent.RMNewAllocationsEvent:
		for _, a := range v.Allocations {
			r.out = append(r.out, Out{T: "newalloc", App: a.ApplicationID, Key: a.AllocationKey, Node: a.NodeID,
				Res: resFromProto(a.ResourcePerAlloc), Ph: a.Placeholder, TG: a.TaskGroupName, Group: g})
		}
		r.reply(v.Channel)
	case *rmevent.RMReleaseAllocationEvent:
		for _, a := range v.ReleasedAllocations {
			r.out = append(r.out, Out{T: "release", App: a.ApplicationID, Key: a.AllocationKey, Term: a.TerminationType.String(), Msg: a.Message, Group: g})
		}
		r.reply(v.Channel)
	case *rmevent.RMApplicationUpdateEvent:
		for _, a := range v.AcceptedApplications {
			r.out = append(r.out, Out{T: "appacc", App: a.ApplicationID, Group: g})
		}
		for _, a := range v.RejectedApplications {
			r.out = append(r.out, Out{T: "apprej", App: a.ApplicationID, Msg: a.Reason, Group: g})
		}
		for _, a := range v.UpdatedApplications {
			r.out = append(r.out, Out{T: "appupd", App: a.ApplicationID, State: a.State, Msg: a.Message, Group: g})
		}
	case *rmevent.RMNodeUpdateEvent:
		for _, a := range v.AcceptedNodes {
			r.out = append(r.out, Out{T: "nodeacc", Node: a.NodeID, Group: g})
		}
		for _, a := range v.RejectedNodes {
			r.out = append(r.out, Out{T: "noderej", Node: a.NodeID, Msg: a.Reason, Group: g})
		}
	case *rmevent.RMRejectedAllocationEvent:
		for _, a := range v.RejectedAllocations {
			r.out = append(r.out, Out{T: "allocrej", App: a.ApplicationID, Key: a.AllocationKey, Msg: a.Reason, Group: g})
		}
	default:
		r.out = append(r.out, Out{T: fmt.Sprintf("unknown:%T", ev), Group: g})
	}
	r.mu.Unlock()
}

func (r *Recorder) reply(c chan *rmevent.Result) {
	if c == nil {
		return
	}
	r.wg.Add(1)
	go func() {
		defer r.wg.Done()
		c <- &rmevent.Result{Succeeded: true}
	}()
}

// Drain returns and clears the recorded outbound elements.
func (r *Recorder) Drain() []Out {
	r.mu.Lock()
	defer r.mu.Unlock()
	o := r.out
	r.out = nil
	r.groups = 0
	return o
}

func resFromProto(p *si.Resource) Res {
	r := Res{}
	if p == nil {
		return r
	}
	for k, v := range p.Resources {
		if v != nil && v.Value != 0 {
			r[k] = v.Value
		}
	}
	return r
}

func (r Res) ToProto() *si.Resource {
	p := &si.Resource{Resources: map[string]*si.Quantity{}}
	for k, v := range r {
		p.Resources[k] = &si.Quantity{Value: v}
	}
	return p
}
