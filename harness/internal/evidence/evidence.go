// Package evidence writes /verif/evidence/<id>.json per EVIDENCE.schema.json.
package evidence

import (
	"encoding/json"
	"os"
	"path/filepath"
)

type File struct {
	PropertyID  string                 `json:"property_id"`
	Tier        string                 `json:"tier"`
	Seed        int64                  `json:"seed"`
	Level       string                 `json:"level"`
	Coverage    map[string]interface{} `json:"coverage"`
	Assumptions []string               `json:"assumptions,omitempty"`
	WallS       float64                `json:"wall_s"`
	Violations  int                    `json:"violations"`
}

func Write(dir string, f *File) error {
	if err := os.MkdirAll(dir, 0o755); err != nil {
		return err
	}
	b, err := json.MarshalIndent(f, "", " ")
	if err != nil {
		return err
	}
	tmp := filepath.Join(dir, f.PropertyID+".json.tmp")
	if err := os.WriteFile(tmp, append(b, '\n'), 0o644); err != nil {
		return err
	}
	return os.Rename(tmp, filepath.Join(dir, f.PropertyID+".json"))
}
