// Package ilv is the interleaving explorer (engine E2): a cooperative scheduler that owns every lock acquisition of
// the real core (through the pkg/locking hook, build tag verif) and a depth-first, preemption-bounded enumeration of
// the schedules of 2-3 real goroutine bodies. Exactly one managed goroutine runs at a time; a goroutine that reaches
// Lock/RLock parks until the scheduler grants the acquisition; the scheduler models the mutex state, so a parked
// goroutine whose mutex is not available is DISABLED, "nobody enabled but somebody not finished" is a DEADLOCK and
// nothing ever spins.
package ilv

import (
	"bytes"
	"fmt"
	"runtime"
	"sort"
	"strconv"
	"strings"
	"sync"
	"sync/atomic"
	"time"
	"unsafe"

	"github.com/apache/yunikorn-core/pkg/locking"
)

type mstate struct {
	id      int
	rw      bool
	writer  bool
	readers int
}

type thread struct {
	id      int
	gid     uint64
	name    string
	wake    chan struct{}
	parked  bool // waiting for a grant
	started bool
	done    bool
	m       unsafe.Pointer // pending acquisition
	write   bool
	rw      bool
	panic   string
	where   string
}

// Point is one scheduling decision of an execution.
type Point struct {
	Enabled        []int // thread ids in canonical order (running thread first if still enabled, then ascending)
	RunningEnabled bool
	Chosen         int    // index into Enabled
	Desc           string `json:",omitempty"` // only with Trace: what every live thread waits for
}

// OnPoint, when set, is called at every scheduling point: all managed goroutines are parked in front of a lock (or have
// finished), so the callback may read the state of the core without locks. ran is the id of the thread that executed the
// step since the previous point (-1 at the first point).
var OnPoint func(ran int)

// Where returns, while a Run with Trace is at a scheduling point, the call stack (innermost first) at which the thread is
// parked; "" without Trace, for an unknown thread or one that has finished.
func Where(id int) string {
	s := current
	if s == nil {
		return ""
	}
	s.mu.Lock()
	defer s.mu.Unlock()
	if id < 0 || id >= len(s.threads) || s.threads[id].done {
		return ""
	}
	return s.threads[id].where
}

var current *Sched

// Trace makes Run describe every scheduling point (debugging aid for nondeterminism of the harness).
var Trace = false

// Result of one execution.
type Result struct {
	Points      []Point
	Deadlock    string
	Panics      []string
	Harness     string // harness trouble (watchdog, settle): no verdict
	Stacks      string // goroutine dump taken when the watchdog fired
	Threads     int
	LockOps     int
	Preemptions int
}

type Sched struct {
	mu       sync.Mutex
	threads  []*thread
	byGid    map[uint64]*thread
	mutexes  map[unsafe.Pointer]*mstate
	parkedCh chan struct{} // signalled when the running thread parks or finishes
	active   bool
	adopt    bool
	lockOps  int
	base     int // goroutines that exist outside the managed ones
}

func goid() uint64 {
	var buf [64]byte
	n := runtime.Stack(buf[:], false)
	// "goroutine 123 [running]:"
	b := buf[10:n]
	i := bytes.IndexByte(b, ' ')
	id, _ := strconv.ParseUint(string(b[:i]), 10, 64)
	return id
}

func (s *Sched) mutex(m unsafe.Pointer, rw bool) *mstate {
	ms := s.mutexes[m]
	if ms == nil {
		ms = &mstate{id: len(s.mutexes), rw: rw}
		s.mutexes[m] = ms
	}
	return ms
}

// BeforeAcquire is called by every goroutine that is about to lock a core mutex.
func (s *Sched) BeforeAcquire(m unsafe.Pointer, write bool, rw bool) {
	s.mu.Lock()
	if !s.active {
		s.mu.Unlock()
		return
	}
	g := goid()
	t := s.byGid[g]
	if t == nil {
		if !s.adopt {
			// unmanaged goroutine (harness): only book the state
			ms := s.mutex(m, rw)
			if write {
				ms.writer = true
			} else {
				ms.readers++
			}
			s.mu.Unlock()
			return
		}
		// a goroutine the core spawned itself: adopt it as a new thread
		t = &thread{id: len(s.threads), gid: g, name: "spawned", wake: make(chan struct{}, 1), started: true}
		s.threads = append(s.threads, t)
		s.byGid[g] = t
	}
	s.lockOps++
	if Trace {
		pc := make([]uintptr, 12)
		n := runtime.Callers(3, pc)
		fr := runtime.CallersFrames(pc[:n])
		t.where = ""
		for {
			f, more := fr.Next()
			nm := f.Function
			if i := strings.LastIndex(nm, "/"); i >= 0 {
				nm = nm[i+1:]
			}
			t.where += fmt.Sprintf("%s:%d<", nm, f.Line)
			if !more {
				break
			}
		}
	}
	t.m, t.write, t.rw = m, write, rw
	t.parked = true
	s.mu.Unlock()
	s.parkedCh <- struct{}{}
	<-t.wake
}

// AfterRelease books a release; it is not a scheduling point.
func (s *Sched) AfterRelease(m unsafe.Pointer, write bool, rw bool) {
	s.mu.Lock()
	defer s.mu.Unlock()
	if !s.active {
		return
	}
	ms := s.mutex(m, rw)
	if write {
		ms.writer = false
	} else if ms.readers > 0 {
		ms.readers--
	}
}

func (s *Sched) enabled(t *thread) bool {
	if t.done || !t.parked {
		return false
	}
	if t.m == nil {
		return true // waiting at its start point
	}
	ms := s.mutex(t.m, t.rw)
	if t.write {
		return !ms.writer && ms.readers == 0
	}
	if ms.writer {
		return false
	}
	if ms.readers == 0 {
		return true
	}
	// Go's RWMutex: a writer that is waiting blocks new readers
	for _, o := range s.threads {
		if o != t && o.parked && !o.done && o.m == t.m && o.write {
			return false
		}
	}
	return true
}

// Run executes the bodies under the scheduler following the choice prefix (then always choice 0).
// prepare runs before the hook is active (sequential set-up), the bodies run as managed threads.
// ExtraGoroutines is the number of long-lived goroutines the bodies start that never touch a hooked lock (they
// run freely and are not waited for by the settle barrier).
var ExtraGoroutines = 0

func Run(bodies []func(), names []string, prefix []int, limit time.Duration) *Result {
	s := &Sched{byGid: map[uint64]*thread{}, mutexes: map[unsafe.Pointer]*mstate{}, parkedCh: make(chan struct{}, 64), adopt: true}
	res := &Result{}
	current = s
	defer func() { current = nil }()
	base := runtime.NumGoroutine()
	var wg sync.WaitGroup
	for i, body := range bodies {
		t := &thread{id: i, name: names[i], wake: make(chan struct{}, 1)}
		s.threads = append(s.threads, t)
		wg.Add(1)
		body := body
		registered := make(chan struct{})
		go func() {
			defer wg.Done()
			s.mu.Lock()
			t.gid = goid()
			s.byGid[t.gid] = t
			t.parked = true // start point
			s.mu.Unlock()
			close(registered)
			<-t.wake
			defer func() {
				if r := recover(); r != nil {
					buf := make([]byte, 4096)
					n := runtime.Stack(buf, false)
					t.panic = fmt.Sprintf("%v\n%s", r, buf[:n])
				}
				s.mu.Lock()
				t.done = true
				t.parked = false
				s.mu.Unlock()
				s.parkedCh <- struct{}{}
			}()
			body()
		}()
		<-registered
	}
	s.mu.Lock()
	s.active = true
	s.mu.Unlock()
	locking.VerifSetHook(s)
	defer func() {
		s.mu.Lock()
		s.active = false
		s.mu.Unlock()
		locking.VerifSetHook(nil)
	}()
	deadline := time.Now().Add(limit)
	var timedOut atomic.Bool
	stopWatch := make(chan struct{})
	base++ // the watchdog goroutine
	go func() {
		select {
		case <-stopWatch:
		case <-time.After(limit):
			timedOut.Store(true)
			s.parkedCh <- struct{}{}
		}
	}()
	defer close(stopWatch)
	running := -1
	step := 0
	release := func() {
		// let everything run to completion without control (after a deadlock / harness trouble the world is discarded)
		s.mu.Lock()
		s.active = false
		for _, t := range s.threads {
			if t.parked && !t.done {
				t.parked = false
				select {
				case t.wake <- struct{}{}:
				default:
				}
			}
		}
		s.mu.Unlock()
	}
	for {
		// settle: every goroutine beyond the baseline is a managed thread that is parked or done
		spins := 0
		for {
			s.mu.Lock()
			alive, allParked := 0, true
			for _, t := range s.threads {
				if !t.done {
					alive++
					if !t.parked {
						allParked = false
					}
				}
			}
			var loose *thread // the one thread that was granted its step and has not parked since
			for _, t := range s.threads {
				if !t.done && !t.parked && t.id >= len(bodies) {
					loose = t
				}
			}
			s.mu.Unlock()
			n := runtime.NumGoroutine()
			if allParked && n <= base+alive+ExtraGoroutines {
				break
			}
			if loose != nil && n <= base+alive-1+ExtraGoroutines {
				// an adopted goroutine has no wrapper that reports its end. It was running when another goroutine's park
				// notification ended the wait below, and it has returned since: one goroutine fewer than live threads.
				time.Sleep(20 * time.Microsecond)
				if runtime.NumGoroutine() <= base+alive-1+ExtraGoroutines {
					s.mu.Lock()
					if !loose.parked {
						loose.done = true
					}
					s.mu.Unlock()
					continue
				}
			}
			spins++
			if spins < 100 {
				runtime.Gosched()
			} else {
				time.Sleep(10 * time.Microsecond)
			}
			if spins%2000 == 0 && time.Now().After(deadline) {
				res.Harness = fmt.Sprintf("did not settle within %s at step %d (goroutines %d, base %d, alive managed %d, all parked %v)", limit, step, n, base, alive, allParked)
				release()
				return res
			}
		}
		// drain park notifications
		for len(s.parkedCh) > 0 {
			<-s.parkedCh
		}
		if OnPoint != nil {
			OnPoint(running)
		}
		s.mu.Lock()
		var en []int
		allDone := true
		for _, t := range s.threads {
			if !t.done {
				allDone = false
			}
			if s.enabled(t) {
				en = append(en, t.id)
			}
		}
		if allDone {
			s.mu.Unlock()
			break
		}
		if len(en) == 0 {
			desc := ""
			for _, t := range s.threads {
				if !t.done {
					ms := s.mutex(t.m, t.rw)
					kind := "RLock"
					if t.write {
						kind = "Lock"
					}
					desc += fmt.Sprintf("thread %d (%s) waits for %s of mutex #%d (writer held=%v readers=%d); ", t.id, t.name, kind, ms.id, ms.writer, ms.readers)
				}
			}
			s.mu.Unlock()
			res.Deadlock = desc
			release()
			break
		}
		sort.Ints(en)
		runningEnabled := false
		for i, id := range en {
			if id == running {
				runningEnabled = true
				copy(en[1:i+1], en[:i])
				en[0] = id
				break
			}
		}
		choice := 0
		if step < len(prefix) {
			choice = prefix[step]
			if choice >= len(en) {
				s.mu.Unlock()
				res.Harness = fmt.Sprintf("replay divergence at step %d: choice %d of %d enabled", step, choice, len(en))
				release()
				return res
			}
		}
		pt := Point{Enabled: append([]int{}, en...), RunningEnabled: runningEnabled, Chosen: choice}
		if Trace {
			for _, t := range s.threads {
				if !t.done {
					id := -1
					if t.m != nil {
						id = s.mutex(t.m, t.rw).id
					}
					pt.Desc += fmt.Sprintf("[t%d %s m%d w=%v %s] ", t.id, t.name, id, t.write, t.where)
				}
			}
		}
		res.Points = append(res.Points, pt)
		if runningEnabled && choice != 0 {
			res.Preemptions++
		}
		next := s.threads[en[choice]]
		// grant: book the acquisition in the model
		if next.m != nil {
			ms := s.mutex(next.m, next.rw)
			if next.write {
				ms.writer = true
			} else {
				ms.readers++
			}
		}
		next.parked = false
		next.m = nil
		running = next.id
		s.mu.Unlock()
		step++
		next.wake <- struct{}{}
		// wait for the running thread to park or finish. A goroutine the core spawned itself (adopted) has no wrapper
		// that reports its end: its exit is seen as a drop of the goroutine count below baseline + live managed threads.
		adopted := next.id >= len(bodies)
		waited := false
		if !adopted {
			// fast path: the thread reports itself when it parks or finishes; the watchdog goroutine wakes us at the deadline
			<-s.parkedCh
			waited = !timedOut.Load()
			if !waited {
				buf := make([]byte, 1<<20)
				nb := runtime.Stack(buf, true)
				res.Harness = fmt.Sprintf("thread %d (%s, goroutine %d) neither reached a lock operation nor finished within %s (blocked outside the hooked locks)", next.id, next.name, next.gid, limit)
				res.Stacks = string(buf[:nb])
				release()
				return res
			}
		}
		for !waited {
			select {
			case <-s.parkedCh:
				waited = true
			case <-time.After(30 * time.Microsecond):
				s.mu.Lock()
				alive := 0
				for _, t := range s.threads {
					if !t.done {
						alive++
					}
				}
				parkedNow := next.parked
				s.mu.Unlock()
				if !parkedNow && runtime.NumGoroutine() <= base+alive-1 {
					time.Sleep(20 * time.Microsecond)
					if runtime.NumGoroutine() <= base+alive-1 {
						s.mu.Lock()
						if !next.parked {
							next.done = true
						}
						s.mu.Unlock()
						waited = true
					}
				}
				if !waited && time.Now().After(deadline) {
					buf := make([]byte, 1<<20)
					nb := runtime.Stack(buf, true)
					res.Harness = fmt.Sprintf("thread %d (%s, goroutine %d) neither reached a lock operation nor finished within %s (blocked outside the hooked locks)", next.id, next.name, next.gid, limit)
					res.Stacks = string(buf[:nb])
					release()
					return res
				}
			}
		}
	}
	done := make(chan struct{})
	go func() { wg.Wait(); close(done) }()
	select {
	case <-done:
	case <-time.After(5 * time.Second):
		if res.Deadlock == "" && res.Harness == "" {
			res.Harness = "bodies did not return after the last step"
		}
	}
	s.mu.Lock()
	res.Threads = len(s.threads)
	res.LockOps = s.lockOps
	for _, t := range s.threads {
		if t.panic != "" {
			res.Panics = append(res.Panics, fmt.Sprintf("thread %d (%s): %s", t.id, t.name, t.panic))
		}
	}
	s.mu.Unlock()
	return res
}

// Stats of one exploration.
type Stats struct {
	Executions int
	MaxPoints  int
	Bound      int
	Complete   bool
	Pruned     int
	Outcomes   map[string]int
}

// Explore enumerates all schedules with at most bound preemptions. exec builds a fresh world, runs it under Run with
// the given prefix and returns the result plus an outcome string (final state digest) and a verdict ("" = fine).
// shard/nshards partition the alternatives of the first execution between processes.
func Explore(bound int, shard, nshards int, budget time.Duration, exec func(prefix []int) (*Result, string, string), report func(prefix []int, r *Result, verdict string), stop func() bool) *Stats {
	st := &Stats{Bound: bound, Outcomes: map[string]int{}, Complete: true}
	start := time.Now()
	type job struct {
		prefix []int
		root   bool
	}
	stack := []job{{nil, true}}
	alt := 0
	for len(stack) > 0 {
		if budget > 0 && time.Since(start) > budget || stop != nil && stop() {
			st.Complete = false
			break
		}
		j := stack[len(stack)-1]
		stack = stack[:len(stack)-1]
		r, outcome, verdict := exec(j.prefix)
		st.Executions++
		if len(r.Points) > st.MaxPoints {
			st.MaxPoints = len(r.Points)
		}
		st.Outcomes[outcome]++
		if verdict != "" || r.Harness != "" {
			report(j.prefix, r, verdict)
			if r.Harness != "" {
				continue
			}
		}
		// children: deviate at every later point
		pre := 0
		for i := 0; i < len(r.Points); i++ {
			p := r.Points[i]
			if i >= len(j.prefix) {
				for a := 1; a < len(p.Enabled); a++ {
					cost := pre
					if p.RunningEnabled {
						cost++
					}
					if cost > bound {
						continue
					}
					if j.root {
						alt++
						if nshards > 1 && alt%nshards != shard {
							continue
						}
					}
					child := make([]int, i+1)
					for k := 0; k < i; k++ {
						child[k] = r.Points[k].Chosen
					}
					child[i] = a
					stack = append(stack, job{child, false})
				}
			}
			if p.RunningEnabled && p.Chosen != 0 {
				pre++
			}
		}
	}
	return st
}
