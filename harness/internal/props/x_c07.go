package props

import (
	"encoding/json"
	"fmt"
	"strings"
	"time"

	"verif/harness/internal/mc"
	"verif/harness/internal/world"
)

// C07 (only eligible allocations are preempted) and C08 (preemption respects guarantees and never kills without
// effect). Two deciding steps, both exhaustive inside their bounds and both on the REAL core:
//  (1) world enumeration (E3 flavour): the complete product of small worlds - queue policies and guarantees x
//      placements of existing allocations x one ask - each world built through the SI entry points, followed by
//      scheduling cycles and confirmations; every step is judged by the monitors below;
//  (2) explicit-state search (E1) over preemption scenarios, so that releases, confirmations, node changes and
//      quota changes interleave with the preemption decisions.
// The monitors only use the pre-state, the outbound messages and the post-state, and only rules that are literal
// necessary conditions of the statements (order-free where the statement talks about "the moment a victim is taken").

func victimsOf(st *world.Step) []world.Out {
	var out []world.Out
	for _, o := range st.Out {
		if o.T == "release" && o.Term == "PREEMPTED_BY_SCHEDULER" {
			out = append(out, o)
		}
	}
	return out
}

// fenceRoot: the closest ancestor-or-self of the leaf whose preemption policy is fence (else root).
func fenceRoot(s *world.Snap, leaf string) string {
	for _, q := range queuePathUp(s, leaf) {
		if q.PreemptFence || q.Parent == "" {
			return q.Path
		}
	}
	return "root"
}

func sharesType(a, b Res) bool {
	for k, x := range a {
		if x > 0 && b[k] > 0 {
			return true
		}
	}
	return false
}

func monC07() mc.Monitor {
	return funcMonitor{"C07", func(scn *world.Scenario, pre *world.Snap, st *world.Step, post *world.Snap, counts map[string]int) []mc.Violation {
		var out []mc.Violation
		if post == nil {
			return []mc.Violation{v("C07", "no-crash", st.Op.K, "op %s crashed/hung: %s%s", st.Op, firstLine(st.Panic), firstLine(st.Hang))}
		}
		vs := victimsOf(st)
		if len(vs) == 0 {
			return nil
		}
		seen := map[string]int{}
		for _, o := range vs {
			seen[o.Key]++
		}
		// the ask(s) that triggered queue preemption in this step / the required node asks that are pending
		var triggers, reqAsks []string
		for _, id := range sortedKeys(post.Apps) {
			pa := pre.Apps[id]
			if pa == nil {
				continue
			}
			for _, k := range sortedKeys(post.Apps[id].Asks) {
				if ask, was := pa.Asks[k]; was {
					if post.Apps[id].Asks[k].Triggered && !ask.Triggered {
						triggers = append(triggers, id+"/"+k)
					}
					if ask.Req != "" && !ask.Allocated {
						reqAsks = append(reqAsks, id+"/"+k)
					}
				}
			}
		}
		for _, o := range vs {
			counts["C07.victim"]++
			app := pre.Apps[o.App]
			var al world.AllocSnap
			ok := false
			if app != nil {
				al, ok = app.Allocs[o.Key]
			}
			if !ok {
				out = append(out, v("C07", "victim-not-bound", "bound", "allocation %s of %s was preempted but was not a bound allocation before the step (%s)", o.Key, o.App, st.Op))
				continue
			}
			if al.Released {
				out = append(out, v("C07", "victim-already-released", "released", "allocation %s was preempted although it was already marked released", o.Key))
			}
			if al.Preempted {
				out = append(out, v("C07", "victim-already-preempted", "preempted", "allocation %s was preempted although it was already marked for preemption", o.Key))
			}
			if al.Req != "" {
				out = append(out, v("C07", "victim-requires-node", "required-node", "allocation %s was preempted although it requires node %s", o.Key, al.Req))
			}
			if seen[o.Key] > 1 {
				out = append(out, v("C07", "victim-announced-twice", "same-step", "victim %s announced %d times in one step", o.Key, seen[o.Key]))
			}
			for _, p := range pre.Shim.Pending {
				if p.Key == o.Key && p.Term == "PREEMPTED_BY_SCHEDULER" {
					out = append(out, v("C07", "victim-announced-twice", "again", "victim %s announced again while the first announcement is unconfirmed", o.Key))
				}
			}
			if st.Op.K != "SCHEDULE" {
				continue // quota preemption victims: C08
			}
			// which kind of preemption explains this victim
			explained := false
			var why []string
			for _, t := range reqAsks {
				f := strings.SplitN(t, "/", 2)
				ask := pre.Apps[f[0]].Asks[f[1]]
				if ask.Req == al.Node && al.Prio <= ask.Prio {
					explained = true
				} else {
					why = append(why, fmt.Sprintf("required-node ask %s (node %s priority %d) does not explain a victim on %s with priority %d", f[1], ask.Req, ask.Prio, al.Node, al.Prio))
				}
			}
			for _, t := range triggers {
				f := strings.SplitN(t, "/", 2)
				asker := pre.Apps[f[0]]
				ask := asker.Asks[f[1]]
				spec := scn.Ask(f[1])
				var bad []string
				if spec != nil && !spec.AllowPreemptOther {
					bad = append(bad, "the ask does not allow preempting others")
				}
				if ask.Req != "" {
					bad = append(bad, "the ask requires a node")
				}
				if ask.Triggered {
					bad = append(bad, "the ask had triggered preemption before")
				}
				if spec != nil && spec.Create > time.Now().Unix() {
					bad = append(bad, "the ask is younger than the preemption delay")
				}
				if app.Queue == asker.Queue {
					bad = append(bad, "victim is in the asker's own leaf queue")
				}
				vq := pre.Queues[app.Queue]
				if vq != nil && !vq.PreemptOn {
					bad = append(bad, "the victim's queue has preemption disabled")
				}
				if fr := fenceRoot(pre, asker.Queue); !inSubtree(app.Queue, fr) {
					bad = append(bad, "victim queue "+app.Queue+" is outside the asker's preemption fence "+fr)
				}
				if !sharesType(ask.Res, al.Res) {
					bad = append(bad, "victim shares no resource type with the ask")
				}
				if plainPriorities(pre, asker.Queue, app.Queue) && al.Prio > ask.Prio {
					bad = append(bad, fmt.Sprintf("victim priority %d outranks the ask's %d and no priority fence/offset applies", al.Prio, ask.Prio))
				}
				if len(bad) == 0 {
					explained = true
				} else {
					why = append(why, fmt.Sprintf("queue preemption for %s: %s", f[1], strings.Join(bad, "; ")))
				}
			}
			if !explained {
				cls := "no-trigger"
				if len(why) > 0 {
					cls = classOfWhy(why)
				}
				out = append(out, v("C07", "ineligible-victim", cls, "allocation %s (queue %s node %s priority %d res %s) was preempted on %s but no pending ask makes it an eligible victim: %s", o.Key, app.Queue, al.Node, al.Prio, al.Res, st.Op, strings.Join(why, " | ")))
			}
		}
		return out
	}}
}

func classOfWhy(why []string) string {
	for _, key := range []string{"does not allow", "requires a node", "triggered preemption before", "younger", "own leaf", "preemption disabled", "outside the asker", "shares no resource", "outranks", "required-node ask"} {
		for _, w := range why {
			if strings.Contains(w, key) {
				return strings.ReplaceAll(key, " ", "-")
			}
		}
	}
	return "other"
}

// plainPriorities: no queue on either path to the root uses a priority fence or offset (then victim <= ask must hold).
func plainPriorities(s *world.Snap, a, b string) bool {
	for _, leaf := range []string{a, b} {
		for _, q := range queuePathUp(s, leaf) {
			if q.PrioFence || q.PrioOffset != 0 {
				return false
			}
		}
	}
	return true
}

func monC08() mc.Monitor {
	return funcMonitor{"C08", func(scn *world.Scenario, pre *world.Snap, st *world.Step, post *world.Snap, counts map[string]int) []mc.Violation {
		var out []mc.Violation
		if post == nil {
			return []mc.Violation{v("C08", "no-crash", st.Op.K, "op %s crashed/hung: %s%s", st.Op, firstLine(st.Panic), firstLine(st.Hang))}
		}
		if post.Gone {
			return nil
		}
		// ---- invariant: preempting = sum of the preempted allocations still present, per queue subtree
		for _, p := range sortedKeys(post.Queues) {
			want := Res{}
			for _, a := range activeApps(post) {
				if inSubtree(a.Queue, p) {
					for _, al := range a.Allocs {
						if al.Preempted {
							want = want.Add(al.Res)
						}
					}
				}
			}
			counts["C08.preempting-ledger"]++
			if !want.Equal(post.Queues[p].Preempting) {
				out = append(out, v("C08", "preempting-ledger", "sum", "queue %s reports preempting %s, the preempted allocations still present below it sum to %s (after %s)", p, post.Queues[p].Preempting, want, st.Op))
			}
		}
		vs := victimsOf(st)
		if len(vs) == 0 {
			return out
		}
		eff := func(q *world.QueueSnap) Res { return q.Allocated.Sub(q.Preempting) }
		if st.Op.K == "QUOTA_PREEMPT" {
			counts["C08.quota-preemption"]++
			if !pre.Part.QuotaPreempt {
				out = append(out, v("C08", "quota-preemption-while-disabled", "flag", "quota preemption took %d victims although the partition does not enable it", len(vs)))
			}
			byLeaf := map[string][]world.AllocSnap{}
			for _, o := range vs {
				if a := pre.Apps[o.App]; a != nil {
					byLeaf[a.Queue] = append(byLeaf[a.Queue], a.Allocs[o.Key])
				}
			}
			// for every queue with a maximum on the victims' paths: the claim is bounded by the excess
			for _, leaf := range sortedKeys(byLeaf) {
				for _, q := range queuePathUp(pre, leaf) {
					var sum Res = Res{}
					var smallest Res
					for l, als := range byLeaf {
						if !inSubtree(l, q.Path) {
							continue
						}
						for _, al := range als {
							sum = sum.Add(al.Res)
							if smallest == nil || al.Res.FitsIn(smallest) {
								smallest = al.Res
							}
						}
					}
					if !q.Managed {
						out = append(out, v("C08", "quota-preemption-unmanaged-queue", "dynamic", "quota preemption took victims in the unmanaged queue %s", q.Path))
					}
					if len(q.Guaranteed) > 0 {
						above := false
						for t, g := range q.Guaranteed {
							if eff(q)[t] > g {
								above = true
							}
						}
						if !above {
							out = append(out, v("C08", "quota-preemption-below-guaranteed", "guaranteed", "quota preemption took victims under queue %s whose usage %s is at or below its guaranteed %v", q.Path, eff(q), q.Guaranteed))
						}
					}
				}
			}
			// with a configured delay of 30 minutes or more nothing can be due inside a run that takes seconds
			for _, leaf := range sortedKeys(byLeaf) {
				for _, q := range queuePathUp(pre, leaf) {
					if q.Path == "root" || len(q.Max) == 0 {
						continue
					}
					if d, err := time.ParseDuration(q.QuotaDelay); err == nil && d >= 30*time.Minute {
						exceeded := false
						for t, mv := range q.Max {
							if eff(q)[t] > mv {
								exceeded = true
							}
						}
						if exceeded {
							out = append(out, v("C08", "quota-preemption-before-delay", "delay", "quota preemption took victims under %s whose quota.preemption.delay is %s; the maximum was lowered moments ago", q.Path, q.QuotaDelay))
						}
					}
				}
			}
			// some queue on the path must exceed its maximum, its delay must have elapsed, and the claim without the smallest
			// victim must not already cover the excess
			for _, leaf := range sortedKeys(byLeaf) {
				justified := false
				for _, q := range queuePathUp(pre, leaf) {
					if q.Path == "root" || len(q.Max) == 0 {
						continue
					}
					for t, mv := range q.Max {
						// (armed, not "due": whether a 1 ms delay has elapsed between the snapshot and the trigger is wall-clock
						// dependent; long delays are judged by the quota-preemption-before-delay rule)
						if eff(q)[t] > mv && q.QPSet {
							justified = true
						}
					}
				}
				if !justified {
					out = append(out, v("C08", "quota-preemption-not-justified", "excess", "quota preemption took victims in %s but no queue on its path is above a maximum with quota preemption armed", leaf))
				}
			}
			return out
		}
		if st.Op.K != "SCHEDULE" {
			return out
		}
		// ---- queue preemption decisions of this cycle
		for _, id := range sortedKeys(post.Apps) {
			pa := pre.Apps[id]
			if pa == nil {
				continue
			}
			for _, k := range sortedKeys(post.Apps[id].Asks) {
				was, had := pa.Asks[k]
				if !had || was.Triggered || !post.Apps[id].Asks[k].Triggered || was.Req != "" {
					continue // not a queue preemption decision of this step (required node preemption has its own rules: C07)
				}
				counts["C08.queue-preemption-decision"]++
				ask := was
				// the victims of this decision: all queue-preemption victims of the step (at most one decision per cycle and partition)
				allVictims := map[string]Res{} // leaf -> sum of victims
				for _, o := range vs {
					if va := pre.Apps[o.App]; va != nil {
						if allVictims[va.Queue] == nil {
							allVictims[va.Queue] = Res{}
						}
						allVictims[va.Queue] = allVictims[va.Queue].Add(va.Allocs[o.Key].Res)
					}
				}
				// G1: the asker's path has a guaranteed setting (for a type the ask needs) that the ask is still under: with
				// the victims below that queue gone and the ask added, the queue is within the guaranteed quantity
				under := false
				for _, q := range queuePathUp(pre, pa.Queue) {
					gone := Res{}
					for leaf, sum := range allVictims {
						if inSubtree(leaf, q.Path) {
							gone = gone.Add(sum)
						}
					}
					for t, g := range q.Guaranteed {
						if ask.Res[t] > 0 && eff(q)[t]-gone[t]+ask.Res[t] <= g {
							under = true
						}
					}
				}
				if !under {
					out = append(out, v("C08", "preemption-without-guarantee-shortfall", "asker", "ask %s (%s) in %s triggered queue preemption although on no queue of its path the ask fits under a guaranteed quantity of a type it needs, even with the victims gone", k, ask.Res, pa.Queue))
				}
				byLeaf := map[string][]world.AllocSnap{}
				onNode := map[string]Res{}
				for _, o := range vs {
					va := pre.Apps[o.App]
					if va == nil {
						continue
					}
					al := va.Allocs[o.Key]
					byLeaf[va.Queue] = append(byLeaf[va.Queue], al)
					if onNode[al.Node] == nil {
						onNode[al.Node] = Res{}
					}
					onNode[al.Node] = onNode[al.Node].Add(al.Res)
				}
				// G2: a victim queue with a guarantee was above it (for a type the ask needs) when its last victim was taken
				for _, leaf := range sortedKeys(byLeaf) {
					q := pre.Queues[leaf]
					if q == nil || len(q.Guaranteed) == 0 {
						continue
					}
					sum := Res{}
					for _, al := range byLeaf[leaf] {
						sum = sum.Add(al.Res)
					}
					okQ := false
					for _, al := range byLeaf[leaf] {
						before := eff(q).Sub(sum).Add(al.Res)
						for t, g := range q.Guaranteed {
							if ask.Res[t] > 0 && before[t] > g {
								okQ = true
							}
						}
					}
					counts["C08.victim-queue-guarantee"]++
					if !okQ {
						out = append(out, v("C08", "victim-taken-at-or-below-guarantee", "victim-queue", "queue %s (usage %s preempting %s guaranteed %v) lost %d victim(s) totalling %s for ask %s (%s): whichever victim was taken last, the queue was then not above its guarantee in a type the ask needs",
							leaf, q.Allocated, q.Preempting, q.Guaranteed, len(byLeaf[leaf]), sum, k, ask.Res))
					}
				}
				// G3: committed only with a reservation whose node can hold the ask once the victims on it are gone
				node := post.Apps[id].Reservations[k]
				if node == "" {
					out = append(out, v("C08", "victims-without-reservation", "no-effect", "ask %s triggered preemption and %d victim(s) were announced, but the ask holds no reservation afterwards", k, len(vs)))
				} else if n := pre.Nodes[node]; n != nil {
					free := n.Available.Add(onNode[node])
					counts["C08.victims-cover-ask"]++
					if !ask.Res.FitsIn(free) {
						out = append(out, v("C08", "victims-do-not-cover-ask", "shortfall", "ask %s (%s) was reserved on %s after preemption, but the free space %s plus the victims on that node %s do not cover it", k, ask.Res, node, n.Available, onNode[node]))
					}
				}
			}
		}
		return out
	}}
}

// ---------------------------------------------------------------- world enumeration

type c07Alloc struct {
	Queue string `json:"queue"`
	Node  string `json:"node"`
	Size  int64  `json:"size"`
	Prio  int32  `json:"prio,omitempty"`
	Req   bool   `json:"requiresItsNode,omitempty"`
	Vcore bool   `json:"vcoreOnly,omitempty"`
}

type c07World struct {
	Tree     string            `json:"tree"`
	Policies map[string]string `json:"preemptionPolicy"`
	Guar     map[string]int64  `json:"guaranteed"`
	PrioPol  map[string]string `json:"priorityPolicy,omitempty"`
	Allocs   []c07Alloc        `json:"allocations"`
	AskQueue string            `json:"askQueue"`
	AskSize  int64             `json:"askSize"`
	AskPrio  int32             `json:"askPriority"`
	AskAPO   bool              `json:"askAllowsPreemptOther"`
	AskReq   string            `json:"askRequiredNode,omitempty"`
	AskYoung bool              `json:"askYoungerThanDelay,omitempty"`
}

func (w c07World) yaml() string {
	q := func(indent int, name string, parent bool, kids string) string {
		pad := strings.Repeat(" ", indent)
		path := "root." + name
		if indent > 10 {
			path = "root.p." + name
		}
		s := pad + "- name: " + name + "\n"
		if parent {
			s += pad + "  parent: true\n"
		}
		props := ""
		if p := w.Policies[path]; p != "" && p != "default" {
			props += pad + "    preemption.policy: " + p + "\n"
		}
		if p := w.PrioPol[path]; p != "" {
			props += pad + "    priority.policy: " + p + "\n"
		}
		props += pad + "    preemption.delay: 1s\n"
		s += pad + "  properties:\n" + props
		if g := w.Guar[path]; g > 0 {
			s += pad + "  resources:\n" + pad + "    guaranteed: {memory: " + fmt.Sprint(g) + "}\n"
		}
		if kids != "" {
			s += pad + "  queues:\n" + kids
		}
		return s
	}
	body := ""
	if w.Tree == "flat" {
		body = q(10, "a", false, "") + q(10, "b", false, "")
	} else if w.Tree == "flat3" {
		body = q(10, "a", false, "") + q(10, "b", false, "") + q(10, "c", false, "")
	} else {
		body = q(10, "p", true, q(14, "a", false, "")+q(14, "b", false, "")) + q(10, "c", false, "")
	}
	return "partitions:\n  - name: default\n    queues:\n      - name: root\n        submitacl: \"*\"\n        queues:\n" + body
}

func (w c07World) scenario() *world.Scenario {
	s := &world.Scenario{Name: "c07-world", Configs: []string{w.yaml()}, Preempt: true,
		Nodes:    []world.NodeSpec{{ID: "n1", Cap: world.MV(3, 4)}, {ID: "n2", Cap: world.MV(2, 4)}},
		Alphabet: []string{"SCHEDULE", "CONFIRM", "ASK", "ASK_BOUND", "APP_ADD", "NODE_ADD"}}
	queues := map[string]bool{w.AskQueue: true}
	for _, a := range w.Allocs {
		queues[a.Queue] = true
	}
	s.Prefix = []world.Op{op("NODE_ADD", "n1"), op("NODE_ADD", "n2")}
	for _, qn := range sortedKeys(queues) {
		id := "app-" + strings.ReplaceAll(qn, ".", "-")
		s.Apps = append(s.Apps, world.AppSpec{ID: id, Queue: qn, User: "u1", Groups: []string{"g1"}})
		s.Prefix = append(s.Prefix, op("APP_ADD", id))
	}
	for i, a := range w.Allocs {
		key := fmt.Sprintf("v%d", i)
		res := world.M(a.Size)
		if a.Vcore {
			res = Res{"vcore": a.Size}
		}
		spec := world.AskSpec{Key: key, App: "app-" + strings.ReplaceAll(a.Queue, ".", "-"), Res: res, Prio: a.Prio, BoundNode: a.Node, Create: 1000 + int64(i), AllowPreemptSelf: true}
		if a.Req {
			spec.RequiredNode = a.Node
		}
		s.Asks = append(s.Asks, spec)
		s.Prefix = append(s.Prefix, op("ASK_BOUND", key))
	}
	ask := world.AskSpec{Key: "ask", App: "app-" + strings.ReplaceAll(w.AskQueue, ".", "-"), Res: world.M(w.AskSize), Prio: w.AskPrio, AllowPreemptOther: w.AskAPO, AllowPreemptSelf: true, RequiredNode: w.AskReq, Create: 1100}
	if w.AskYoung {
		ask.Create = time.Now().Unix() + 3600
	}
	s.Asks = append(s.Asks, ask)
	s.Prefix = append(s.Prefix, op("ASK", "ask"))
	return s
}

func c07Worlds(thorough bool, emit func(c07World)) {
	pols := []string{"default", "fence", "disabled"}
	guars := []int64{0, 1, 3}
	askPols, askGuars := []string{"default", "fence"}, []int64{0, 3}
	vicPols, vicGuars := []string{"default", "disabled"}, []int64{0, 1}
	if thorough {
		askPols, askGuars, vicPols, vicGuars = pols, guars, pols, guars
	}
	slot := func(queues []string) []c07Alloc {
		var o []c07Alloc
		for _, q := range queues {
			for _, n := range []string{"n1", "n2"} {
				for _, sz := range []int64{1, 2} {
					o = append(o, c07Alloc{Queue: q, Node: n, Size: sz})
				}
			}
		}
		return o
	}
	type asks struct {
		size int64
		prio int32
		apo  bool
		req  string
		yng  bool
	}
	var askOpts []asks
	for _, sz := range []int64{2, 3} {
		for _, pr := range []int32{0, 5} {
			for _, apo := range []bool{true, false} {
				for _, rq := range []string{"", "n1"} {
					for _, y := range []bool{false, true} {
						if y && (rq != "" || !apo) {
							continue
						}
						askOpts = append(askOpts, asks{sz, pr, apo, rq, y})
					}
				}
			}
		}
	}
	build := func(tree, askQ string, vicQs []string, extraPol map[string]string, extraGuar map[string]int64, prioPol map[string]string) {
		s1 := slot(vicQs)
		s2 := append([]c07Alloc{{}}, slot(append([]string{askQ}, vicQs[:1]...))...)
		if !thorough {
			s2 = append([]c07Alloc{{}}, slot(vicQs[:1])...)
			s2 = append(s2, c07Alloc{Queue: askQ, Node: "n1", Size: 1}, c07Alloc{Queue: askQ, Node: "n2", Size: 2})
		}
		s3 := []c07Alloc{{}, {Queue: vicQs[0], Node: "n1", Size: 2, Prio: 10}, {Queue: vicQs[0], Node: "n1", Size: 1, Req: true}, {Queue: vicQs[0], Node: "n1", Size: 2, Vcore: true}, {Queue: vicQs[len(vicQs)-1], Node: "n2", Size: 2}}
		for _, ap := range askPols {
			for _, ag := range askGuars {
				for _, vp := range vicPols {
					for _, vg := range vicGuars {
						for _, a1 := range s1 {
							for _, a2 := range s2 {
								for _, a3 := range s3 {
									var allocs []c07Alloc
									used := map[string]int64{}
									for _, a := range []c07Alloc{a1, a2, a3} {
										if a.Queue != "" {
											allocs = append(allocs, a)
											if !a.Vcore {
												used[a.Node] += a.Size
											}
										}
									}
									if used["n1"] > 3 || used["n2"] > 2 {
										continue
									}
									for _, ao := range askOpts {
										w := c07World{Tree: tree, Policies: map[string]string{askQ: ap, vicQs[0]: vp}, Guar: map[string]int64{askQ: ag, vicQs[0]: vg}, PrioPol: prioPol,
											Allocs: allocs, AskQueue: askQ, AskSize: ao.size, AskPrio: ao.prio, AskAPO: ao.apo, AskReq: ao.req, AskYoung: ao.yng}
										for k, x := range extraPol {
											w.Policies[k] = x
										}
										for k, x := range extraGuar {
											w.Guar[k] = x
										}
										emit(w)
									}
								}
							}
						}
					}
				}
			}
		}
	}
	build("flat", "root.a", []string{"root.b"}, nil, nil, nil)
	for _, pp := range []string{"default", "fence"} {
		for _, pg := range []int64{0, 4} {
			if !thorough && !(pp == "fence" && pg == 4) && !(pp == "default" && pg == 0) {
				continue
			}
			build("nested", "root.p.a", []string{"root.p.b", "root.c"}, map[string]string{"root.p": pp}, map[string]int64{"root.p": pg, "root.c": 1}, nil)
		}
	}
	if thorough {
		build("flat", "root.a", []string{"root.b"}, nil, nil, map[string]string{"root.b": "fence"})
	}
	// a priority fenced sibling next to a plain sibling that holds an allocation outranking the ask
	for _, a1 := range slot([]string{"root.b"}) {
		for _, a2 := range slot([]string{"root.c"}) {
			for _, hp := range []int32{0, 10} {
				for _, a3 := range []c07Alloc{{}, {Queue: "root.c", Node: "n1", Size: 1, Prio: 10}, {Queue: "root.b", Node: "n2", Size: 1, Prio: 10}} {
					a2p := a2
					a2p.Prio = hp
					var allocs []c07Alloc
					used := map[string]int64{}
					for _, a := range []c07Alloc{a1, a2p, a3} {
						if a.Queue != "" {
							allocs = append(allocs, a)
							used[a.Node] += a.Size
						}
					}
					if used["n1"] > 3 || used["n2"] > 2 {
						continue
					}
					for _, ao := range askOpts {
						if ao.req != "" || ao.yng || !ao.apo {
							continue
						}
						for _, bg := range []int64{0, 1} {
							emit(c07World{Tree: "flat3", Policies: map[string]string{}, Guar: map[string]int64{"root.a": 3, "root.b": bg, "root.c": bg}, PrioPol: map[string]string{"root.b": "fence"},
								Allocs: allocs, AskQueue: "root.a", AskSize: ao.size, AskPrio: ao.prio, AskAPO: true})
						}
					}
				}
			}
		}
	}
}

type c07Run struct {
	evals, withVictims int
	nontrivial         map[string]bool
	outcomes           map[string]bool
	found              []mc.Found
	fpSeen             map[string]int
	samples            []interface{}
	counts             map[string]int
}

func (r *c07Run) runWorld(w c07World, prop string) {
	scn := w.scenario()
	wd, err := world.New(scn)
	if err != nil {
		return
	}
	defer wd.Close()
	r.evals++
	mons := []mc.Monitor{monC07()}
	if prop == "C08" {
		mons = []mc.Monitor{monC08(), monC03()}
	}
	victims := 0
	outcome := ""
	step := func(o world.Op) bool {
		pre := wd.Snapshot()
		st := wd.Apply(o)
		var post *world.Snap
		if st.Panic == "" && st.Hang == "" {
			post = wd.Snapshot()
		}
		n := len(victimsOf(st))
		victims += n
		outcome += fmt.Sprintf("%s:%d,", o.K, n)
		for _, m := range mons {
			for _, x := range m.Step(scn, pre, st, post, r.counts) {
				if x.Prop == "C03" {
					x.FP = "C08:accounting-after-preemption:" + x.Rule
					x.Prop = "C08"
				}
				r.fpSeen[x.FP]++
				if r.fpSeen[x.FP] <= 2 {
					r.found = append(r.found, mc.Found{Scenario: "c07-world", Viol: x, Custom: w})
				}
			}
		}
		return post != nil
	}
	for _, o := range []world.Op{{K: "SCHEDULE"}, {K: "SCHEDULE"}} {
		if !step(o) {
			return
		}
	}
	for len(wd.Model.Pending) > 0 {
		if !step(world.Op{K: "CONFIRM", N: 0}) {
			return
		}
	}
	step(world.Op{K: "SCHEDULE"})
	if victims > 0 {
		r.withVictims++
		r.nontrivial[world.J(w)] = true
		if len(r.samples) < 2 && r.withVictims%53 == 1 {
			r.samples = append(r.samples, w)
		}
	}
	r.outcomes[outcome] = true
}

func c07Shard(prop string) func(tier string, shard, n int) *CustomResult {
	return func(tier string, shard, n int) *CustomResult { return c07ShardProp(prop, tier, shard, n) }
}

func c07ShardProp(prop, tier string, shard, n int) *CustomResult {
	run := &c07Run{nontrivial: map[string]bool{}, outcomes: map[string]bool{}, fpSeen: map[string]int{}, counts: map[string]int{}}
	i, skipped := 0, 0
	deadline := shardDeadline(tier)
	c07Worlds(tier == "thorough", func(w c07World) {
		i++
		if i%n == shard {
			if time.Now().After(deadline) {
				skipped++
				return
			}
			run.runWorld(w, prop)
		}
	})
	if len(run.samples) == 0 {
		run.samples = append(run.samples, c07World{Tree: "flat", AskQueue: "root.a", AskSize: 2, AskAPO: true, Allocs: []c07Alloc{{Queue: "root.b", Node: "n1", Size: 2}}})
	}
	cov := map[string]interface{}{"evaluations": run.evals, "distinct_nontrivial": len(run.nontrivial), "worlds_with_victims": run.withVictims, "samples": run.samples, "exhaustive": skipped == 0, "worlds_not_run_time_budget": skipped}
	for k, c := range run.counts {
		if strings.HasPrefix(k, "C07.") || strings.HasPrefix(k, "C08.") {
			cov["rule_"+k] = c
		}
	}
	return &CustomResult{Coverage: cov, Violations: run.found}
}

// preemption scenario for the explicit-state search: releases, confirmations and quota changes interleave with the decisions
func scnPreempt(name string, quota bool) *world.Scenario {
	return scnPreemptG(name, quota, 1, 3, "1ns", "1ns")
}

// scnPreemptG: guaranteed of the victim queue b and of the asker a, quota preemption delays of the second and third document
func scnPreemptG(name string, quota bool, bGuar, aGuar int, delay1, delay2 string) *world.Scenario {
	conf := func(bmax string) string {
		return `partitions:
  - name: default
    preemption:
      enabled: true
      quotapreemptionenabled: ` + fmt.Sprint(quota) + `
    queues:
      - name: root
        submitacl: "*"
        queues:
          - name: a
            properties:
              preemption.delay: 1s
            resources:
              guaranteed: {memory: ` + fmt.Sprint(aGuar) + `}
          - name: b
            properties:
              preemption.delay: 1s
              quota.preemption.delay: DELAY
            resources:
              guaranteed: {memory: ` + fmt.Sprint(bGuar) + `}
` + bmax
	}
	bm := "              max: {memory: 2}\n"
	return &world.Scenario{
		Name:    name,
		Configs: []string{strings.ReplaceAll(conf("              max: {memory: 10}\n"), "DELAY", delay1), strings.ReplaceAll(conf(bm), "DELAY", delay1), strings.ReplaceAll(conf(bm), "DELAY", delay2)},
		Preempt: true,
		Nodes:   []world.NodeSpec{{ID: "n1", Cap: world.M(4)}, {ID: "n2", Cap: world.M(2)}},
		Apps: []world.AppSpec{
			{ID: "appa", Queue: "root.a", User: "u1", Groups: []string{"g1"}},
			{ID: "appb", Queue: "root.b", User: "u2", Groups: []string{"g2"}},
		},
		Asks: []world.AskSpec{
			{Key: "b1", App: "appb", Res: world.M(2), Create: 1001, AllowPreemptSelf: true},
			{Key: "b2", App: "appb", Res: world.M(2), Create: 1002, AllowPreemptSelf: true},
			{Key: "b3", App: "appb", Res: world.M(1), Create: 1003, Prio: 10, AllowPreemptSelf: true},
			{Key: "a1", App: "appa", Res: world.M(2), Create: 1004, AllowPreemptOther: true},
			{Key: "a2", App: "appa", Res: world.M(int64(5 - bGuar)), Create: 1005, AllowPreemptOther: true},
		},
		Alphabet: []string{"SCHEDULE", "ASK", "RELEASE", "CONFIRM", "CONFIG", "QUOTA_PREEMPT", "NODE_REMOVE"},
		Prefix:   []world.Op{op("NODE_ADD", "n1"), op("NODE_ADD", "n2"), op("APP_ADD", "appa"), op("APP_ADD", "appb"), op("ASK", "b1"), op("SCHEDULE"), op("ASK", "b2"), op("SCHEDULE"), op("ASK", "b3"), op("SCHEDULE")},
	}
}

// five tasks of 2 in a victim queue with guaranteed 5: a second preemption attempt runs while a victim of the first is in flight
func scnPreemptG5(name string) *world.Scenario {
	s := scnPreemptG(name, false, 5, 8, "1ns", "1ns")
	s.Nodes = []world.NodeSpec{{ID: "n1", Cap: world.M(10)}}
	s.Asks = nil
	s.Prefix = []world.Op{op("NODE_ADD", "n1"), op("APP_ADD", "appa"), op("APP_ADD", "appb")}
	for i := 1; i <= 5; i++ {
		k := fmt.Sprintf("b%d", i)
		s.Asks = append(s.Asks, world.AskSpec{Key: k, App: "appb", Res: world.M(2), Create: 1000 + int64(i), AllowPreemptSelf: true, BoundNode: "n1"})
		s.Prefix = append(s.Prefix, op("ASK_BOUND", k))
	}
	s.Asks = append(s.Asks, world.AskSpec{Key: "a1", App: "appa", Res: world.M(2), Create: 1010, AllowPreemptOther: true},
		world.AskSpec{Key: "a2", App: "appa", Res: world.M(6), Create: 1011, AllowPreemptOther: true})
	s.Alphabet = []string{"SCHEDULE", "ASK", "RELEASE", "CONFIRM"}
	return s
}

// the victim queue holds a gang application whose three placeholders of 2 fill the node: a preemption that needs two
// of them races with the placeholder timeout (timer goroutine), which marks placeholders released one by one
func scnPreemptPH(name string) *world.Scenario {
	s := scnPreemptG(name, false, 2, 4, "1ns", "1ns")
	s.Nodes = []world.NodeSpec{{ID: "n1", Cap: world.M(6)}}
	s.Apps = []world.AppSpec{
		{ID: "appa", Queue: "root.a", User: "u1", Groups: []string{"g1"}},
		{ID: "appb", Queue: "root.b", User: "u2", Groups: []string{"g2"}, Gang: "Soft", PlaceholderAsk: world.M(6)},
	}
	s.Asks = nil
	s.Prefix = []world.Op{op("NODE_ADD", "n1"), op("APP_ADD", "appa"), op("APP_ADD", "appb")}
	for i := 1; i <= 3; i++ {
		k := fmt.Sprintf("p%d", i)
		s.Asks = append(s.Asks, world.AskSpec{Key: k, App: "appb", Res: world.M(2), Create: 1000 + int64(i), AllowPreemptSelf: true, Placeholder: true, TaskGroup: "tg1"})
		s.Prefix = append(s.Prefix, op("ASK", k), op("SCHEDULE"))
	}
	s.Asks = append(s.Asks, world.AskSpec{Key: "a2", App: "appa", Res: world.M(4), Create: 1011, AllowPreemptOther: true},
		world.AskSpec{Key: "r1", App: "appb", Res: world.M(2), Create: 1012, TaskGroup: "tg1", AllowPreemptSelf: true})
	s.Alphabet = []string{"SCHEDULE", "ASK", "RELEASE", "CONFIRM", "TIMER_PH"}
	return s
}

// registered when the package is initialised: the worker processes look the shard function up by name
var c08Part = c14Part("C08", "c08ilv", "final-state-C08-", func(n string) bool { return strings.HasPrefix(n, "S18-") || strings.HasPrefix(n, "S4-") })

func checkC07C08(prop string) func(tier string, seed int64) *CustomResult {
	return func(tier string, seed int64) *CustomResult {
		res := runSharded(strings.ToLower(prop), tier, shardCount())
		// keep the violations of this property only
		var keep []mc.Found
		for _, f := range res.Violations {
			if f.Viol.Prop == prop {
				keep = append(keep, f)
			}
		}
		res.Violations = keep
		// (2) explicit-state search over the preemption scenarios
		depth := 5
		if tier == "thorough" {
			depth = 7
		}
		states, trans := 0, 0
		for _, sc := range []string{"preempt", "preempt-quota", "preempt-g3", "preempt-g5", "preempt-quota-delay"} {
			rep := mc.Explore(mc.Config{Scenario: sc + "-" + prop, Depth: depth, MapMode: 1, Budget: 10 * time.Minute, ExtraDepth: -1})
			states += rep.States
			trans += rep.Transitions
			for _, f := range rep.Found {
				if f.Viol.Prop == prop {
					res.Violations = append(res.Violations, f)
				}
			}
			res.Harness = append(res.Harness, rep.Harness...)
			if !rep.Exhaustive {
				res.Coverage["exhaustive"] = false
			}
			for k, c := range rep.Counts {
				cur, _ := res.Coverage["rule_"+k].(int64)
				res.Coverage["rule_"+k] = cur + int64(c)
			}
		}
		if prop == "C08" {
			// (3) queue preemption and quota change preemption are different goroutines: the preempting ledger over all
			// their interleavings (an announced victim that is still allocated stays counted and marked)
			r3 := c08Part(tier)
			res.Violations = append(res.Violations, r3.Violations...)
			res.Harness = append(res.Harness, r3.Harness...)
			for k, x := range r3.Coverage {
				if k == "exhaustive" {
					if b, ok := x.(bool); ok && !b {
						res.Coverage["exhaustive"] = false
					}
					continue
				}
				res.Coverage["interleaving_"+k] = x
			}
			if n, ok := r3.Coverage["executions"].(int64); ok {
				trans += int(n)
			}
		}
		if prop == "C07" {
			// (3) the marking of victims races with other goroutines (RM release handler, placeholder timer): all
			// interleavings of the preemption scenarios with at most one preemption (two in the thorough tier) at lock
			// granularity, judged by the announcement rules on the settled final state
			r3 := runSharded("c07ilv", tier, shardCount())
			res.Violations = append(res.Violations, r3.Violations...)
			res.Harness = append(res.Harness, r3.Harness...)
			for _, k := range []string{"executions", "distinct_final_states", "lock_operations_scheduled", "schedules_skipped_nondeterministic_replay"} {
				res.Coverage["interleaving_"+k] = r3.Coverage[k]
			}
			if ex, ok := r3.Coverage["exhaustive"].(bool); ok && !ex {
				res.Coverage["exhaustive"] = false
			}
			if n, ok := r3.Coverage["executions"].(int64); ok {
				trans += int(n)
			}
		}
		res.Coverage["states"] = states
		res.Coverage["transitions"] = trans
		res.Coverage["traces_validated_against_impl"] = trans
		res.Coverage["rule"] = "worlds: complete product of {flat tree root.a/root.b; nested tree root.p.{a,b}+root.c with p default/fence, guaranteed none/4} x preemption policy and guaranteed quantity of the asker and the victim queue x three allocation slots (queue x node x size; high priority / required node / other resource type / second victim queue) that fit the two nodes x ask {size 2,3; priority 0,5; allow-preempt-other; required node; younger than the delay}; every world is built on the real core through the SI entry points, then SCHEDULE, SCHEDULE, all confirmations, SCHEDULE, each step judged by the monitors. non-trivial = a world in which at least one allocation was preempted. states/transitions: explicit-state search of the preemption scenarios (depth " + fmt.Sprint(depth) + ") where releases, confirmations, node removal, quota changes and QUOTA_PREEMPT interleave"
		return res
	}
}

func init() {
	ShardFuncs["c07"] = c07Shard("C07")
	ShardFuncs["c07ilv"] = func(tier string, shard, n int) *CustomResult {
		r := c14ShardSel(tier, shard, n, func(name string) bool {
			return strings.HasPrefix(name, "S4-") || strings.HasPrefix(name, "S13-") || strings.HasPrefix(name, "S14-") || strings.HasPrefix(name, "S18-")
		})
		var keep []mc.Found
		for _, f := range r.Violations {
			if strings.HasPrefix(f.Viol.Rule, "final-state-C07-") {
				f.Viol.Prop = "C07"
				f.Viol.FP = "C07:" + strings.TrimPrefix(f.Viol.FP, "C14:")
				keep = append(keep, f)
			}
		}
		r.Violations = keep
		return r
	}
	ShardFuncs["c08"] = c07Shard("C08")
	for _, prop := range []string{"C07", "C08"} {
		mons := []mc.Monitor{monC07()}
		if prop == "C08" {
			mons = []mc.Monitor{monC08()}
		}
		mc.Register(&mc.ScenarioDef{Scn: scnPreempt("preempt-"+prop, false), Monitors: mons})
		mc.Register(&mc.ScenarioDef{Scn: scnPreempt("preempt-quota-"+prop, true), Monitors: mons})
		mc.Register(&mc.ScenarioDef{Scn: scnPreemptG("preempt-g3-"+prop, false, 3, 4, "1ns", "1ns"), Monitors: mons})
		mc.Register(&mc.ScenarioDef{Scn: scnPreemptG5("preempt-g5-" + prop), Monitors: mons})
		mc.Register(&mc.ScenarioDef{Scn: scnPreemptG("preempt-quota-delay-"+prop, true, 1, 4, "1h", "3h"), Monitors: mons})
	}
	registerCheck(&CheckDef{Prop: "C07", Level: "model_checking", Technique: "exhaustive product of small preemption worlds built on the real core plus explicit-state search of preemption scenarios; every PREEMPTED_BY_SCHEDULER release is judged from the pre-state against the eligibility rules", Custom: checkC07C08("C07"), Replay: replayC07,
		Assumptions: []string{"the priority rule is only judged where no priority fence or offset is configured on either path", "preemption attempt frequency 0, queue preemption delay 1s with asks created in 1970 (old) or one hour in the future (young)"}})
	registerCheck(&CheckDef{Prop: "C08", Level: "model_checking", Technique: "exhaustive product of small preemption worlds built on the real core plus explicit-state search of preemption scenarios (incl. quota changes and QUOTA_PREEMPT); guarantee, shortfall and preempting-ledger rules on every step", Custom: checkC07C08("C08"), Replay: replayC07,
		Assumptions: []string{"'above the guaranteed share at the moment each victim is taken' is judged by its order-free necessary condition", "quota preemption claim bound is judged leniently (task granularity)"}})
}

// replayC07: counterexamples of the interleaving part are schedules, the others are inputs of the enumeration
func replayC07(fp string, raw interface{}) int {
	if m, ok := raw.(map[string]interface{}); ok {
		if _, has := m["schedule"]; has {
			return replayC14(fp, raw)
		}
	}
	want, _ := json.Marshal(raw)
	prop := "C07"
	if strings.HasPrefix(fp, "C08:") {
		prop = "C08"
	}
	cr := checkC07C08(prop)("quick", 0)
	for _, f := range cr.Violations {
		got, _ := json.Marshal(f.Custom)
		if f.Viol.FP == fp && string(got) == string(want) {
			fmt.Printf("violation: %s %s: %s\ninput: %s\nREPRODUCED\n", f.Viol.Prop, f.Viol.Rule, f.Viol.Detail, got)
			return 1
		}
	}
	for _, f := range cr.Violations {
		if f.Viol.FP == fp {
			got, _ := json.Marshal(f.Custom)
			fmt.Printf("violation with the same fingerprint: %s %s: %s\ninput: %s\nREPRODUCED (same class)\n", f.Viol.Prop, f.Viol.Rule, f.Viol.Detail, got)
			return 1
		}
	}
	fmt.Println("not reproduced")
	return 0
}
