package props

import (
	"fmt"
	"math"

	"github.com/apache/yunikorn-core/pkg/events"
	"github.com/apache/yunikorn-scheduler-interface/lib/go/si"

	"verif/harness/internal/mc"
)

// C20 (history part): explicit-state search over all Add/Resize sequences of the real ring buffer; in every
// state every (start,count) query is compared with a plain-slice reference. Event store: all
// Store/SetStoreSize/Collect sequences.

type c20Case struct {
	Kind  string   `json:"kind"`
	Ops   []string `json:"ops"`
	Start uint64   `json:"start,omitempty"`
	Count uint64   `json:"count,omitempty"`
}

type rbRef struct {
	n      uint64 // number of events ever added (ids 0..n-1)
	lowest uint64
	cap    uint64
}

func (r *rbRef) trim() {
	if r.n-r.lowest > r.cap {
		r.lowest = r.n - r.cap
	}
}

type c20Run struct {
	states, transitions, queries int
	nontrivial                   map[string]bool
	found                        []mc.Found
	fpSeen                       map[string]int
	samples                      []interface{}
}

func (r *c20Run) fail(rule, fp string, c c20Case, format string, args ...interface{}) {
	r.fpSeen[fp]++
	if r.fpSeen[fp] > 2 {
		return
	}
	r.found = append(r.found, mc.Found{Scenario: "c20", Viol: mc.Violation{Prop: "C20", Rule: rule, FP: "C20:" + rule + ":" + fp, Detail: fmt.Sprintf(format, args...)}, Custom: c})
}

func buildRB(initCap uint64, ops []string) (*events.RingBuffer, *rbRef) {
	rb := events.VerifNewRingBuffer(initCap)
	ref := &rbRef{cap: initCap}
	for _, o := range ops {
		if o == "A" {
			rb.Add(&si.EventRecord{TimestampNano: int64(ref.n)}) //nolint:gosec
			ref.n++
			ref.trim()
		} else {
			var c uint64
			fmt.Sscanf(o, "R%d", &c)
			rb.Resize(c)
			ref.cap = c
			ref.trim()
		}
	}
	return rb, ref
}

func (r *c20Run) checkState(initCap uint64, ops []string, maxCap uint64) {
	rb, ref := buildRB(initCap, ops)
	full := append([]string{fmt.Sprintf("cap%d", initCap)}, ops...)
	counts := []uint64{}
	for c := uint64(0); c <= maxCap+2; c++ {
		counts = append(counts, c)
	}
	counts = append(counts, math.MaxUint64)
	for start := uint64(0); start <= ref.n+2; start++ {
		for _, count := range counts {
			r.queries++
			c := c20Case{Kind: "ringbuffer", Ops: full, Start: start, Count: count}
			var got []*si.EventRecord
			var lo, hi uint64
			if p := safely(func() { got, lo, hi = rb.GetEventsFromID(start, count) }); p != nil {
				r.fail("panic", "GetEventsFromID", c, "GetEventsFromID(%d,%d) after %v panicked: %v", start, count, full, p)
				continue
			}
			wantHi := uint64(0)
			if ref.n > 0 {
				wantHi = ref.n - 1
			}
			if start < ref.lowest || start >= ref.n {
				if got != nil && len(got) > 0 {
					r.fail("outside-range-returns-events", "outside", c, "query (%d,%d) after %v: start is outside the available range [%d,%d] but %d events were returned", start, count, full, ref.lowest, wantHi, len(got))
				}
				if lo != ref.lowest || hi != wantHi {
					r.fail("available-range-wrong", "range", c, "query (%d,%d) after %v: reported available range [%d,%d], the most recent events up to the capacity are [%d,%d]", start, count, full, lo, hi, ref.lowest, wantHi)
				}
				continue
			}
			// inside: exactly ids start, start+1, ... up to count or the newest
			end := ref.n
			if count < ref.n-start {
				end = start + count
			}
			want := end - start
			if want > 0 {
				r.nontrivial[fmt.Sprintf("%v|%d|%d", full, start, count)] = true
			}
			shape := "nowrap"
			if ref.n > ref.cap {
				shape = "wrapped"
			}
			if uint64(len(got)) != want {
				ids := []int64{}
				for _, e := range got {
					if e != nil {
						ids = append(ids, e.TimestampNano)
					} else {
						ids = append(ids, -1)
					}
				}
				kind := "too-many"
				if uint64(len(got)) < want {
					kind = "too-few"
				}
				r.fail("wrong-number-of-events", kind+"-"+shape, c, "query (%d,%d) after %v: got %d events %v, want exactly ids %d..%d", start, count, full, len(got), ids, start, end-1)
				continue
			}
			for i, e := range got {
				if e == nil || uint64(e.TimestampNano) != start+uint64(i) { //nolint:gosec
					id := int64(-1)
					if e != nil {
						id = e.TimestampNano
					}
					r.fail("gap-or-repeat", shape, c, "query (%d,%d) after %v: event %d of the answer has id %d, want %d", start, count, full, i, id, start+uint64(i))
					break
				}
			}
		}
	}
	if len(r.samples) < 5 && len(ops) >= 4 && r.states%977 == 0 {
		r.samples = append(r.samples, c20Case{Kind: "ringbuffer", Ops: full, Start: ref.lowest, Count: 2})
	}
}

func (r *c20Run) exploreRB(maxCap uint64, depth int) {
	alphabet := []string{"A"}
	for c := uint64(1); c <= maxCap; c++ {
		alphabet = append(alphabet, fmt.Sprintf("R%d", c))
	}
	for initCap := uint64(1); initCap <= maxCap; initCap++ {
		var rec func(ops []string)
		rec = func(ops []string) {
			r.states++
			r.checkState(initCap, ops, maxCap)
			if len(ops) == depth {
				return
			}
			for _, a := range alphabet {
				if a == fmt.Sprintf("R%d", curCap(initCap, ops)) {
					continue // resize to the same capacity is a no-op
				}
				r.transitions++
				rec(append(append([]string{}, ops...), a))
			}
		}
		rec(nil)
	}
}

func curCap(init uint64, ops []string) uint64 {
	c := init
	for _, o := range ops {
		if o != "A" {
			fmt.Sscanf(o, "R%d", &c)
		}
	}
	return c
}

func (r *c20Run) exploreStore(maxSize uint64, depth int) {
	alphabet := []string{"S", "C"}
	for s := uint64(1); s <= maxSize; s++ {
		alphabet = append(alphabet, fmt.Sprintf("Z%d", s))
	}
	for init := uint64(1); init <= maxSize; init++ {
		var rec func(ops []string)
		rec = func(ops []string) {
			r.states++
			if len(ops) > 0 && ops[len(ops)-1] == "C" {
				r.checkStore(init, ops)
			}
			if len(ops) == depth {
				return
			}
			for _, a := range alphabet {
				r.transitions++
				rec(append(append([]string{}, ops...), a))
			}
		}
		rec(nil)
	}
}

func (r *c20Run) checkStore(init uint64, ops []string) {
	full := append([]string{fmt.Sprintf("size%d", init)}, ops...)
	c := c20Case{Kind: "store", Ops: full}
	p := safely(func() {
		st := events.VerifNewEventStore(init)
		configured := init
		windowMax := init // largest size configured since the previous collection
		var stored []int64
		n := int64(0)
		for i, o := range ops {
			switch o[0] {
			case 'S':
				st.Store(&si.EventRecord{TimestampNano: n})
				stored = append(stored, n)
				n++
			case 'Z':
				var s uint64
				fmt.Sscanf(o, "Z%d", &s)
				st.SetStoreSize(s)
				configured = s
				if s > windowMax {
					windowMax = s
				}
			case 'C':
				batch := st.CollectEvents()
				r.queries++
				if i == len(ops)-1 {
					if len(batch) > 0 {
						r.nontrivial[fmt.Sprintf("store|%v", full)] = true
					}
					if uint64(len(batch)) > windowMax {
						r.fail("batch-exceeds-configured-size", "store", c, "after %v the collected batch has %d events, every size configured since the previous collection is <= %d", full, len(batch), windowMax)
					}
					for j, e := range batch {
						if j < len(stored) && e.TimestampNano != stored[j] {
							r.fail("batch-order", "store", c, "after %v the batch is not the stored events in order", full)
							break
						}
					}
				}
				stored = nil
				windowMax = configured
			}
		}
	})
	if p != nil {
		r.fail("panic", "store", c, "store sequence %v panicked: %v", full, p)
	}
}

func checkC20(tier string, seed int64) *CustomResult {
	run := &c20Run{nontrivial: map[string]bool{}, fpSeen: map[string]int{}}
	maxCap, depth, sdepth := uint64(4), 8, 7
	if tier == "thorough" {
		maxCap, depth, sdepth = 4, 10, 9
	}
	run.exploreRB(maxCap, depth)
	run.exploreStore(3, sdepth)
	if len(run.samples) == 0 {
		run.samples = append(run.samples, c20Case{Kind: "ringbuffer", Ops: []string{"cap2", "A", "A", "A"}, Start: 1, Count: 1})
	}
	scov, sfound, sharness := checkC20Stream(tier)
	run.found = append(run.found, sfound...)
	defer func() {}()
	res := &CustomResult{
		Coverage: map[string]interface{}{
			"states": run.states, "transitions": run.transitions, "traces_validated_against_impl": run.transitions,
			"evaluations": run.queries, "distinct_nontrivial": len(run.nontrivial), "exhaustive": true, "samples": run.samples,
			"rule":        fmt.Sprintf("ring buffer: every sequence over {Add, Resize(1..%d)} up to depth %d from every initial capacity 1..%d, executed on the real ring buffer; in every state every query start in 0..id+2 x count in 0..cap+2 and MaxUint64 is compared with a plain-slice reference. store: every sequence over {Store, Collect, SetStoreSize(1..3)} up to depth %d. non-trivial = the reference answer contains at least one event", maxCap, depth, maxCap, sdepth),
			"explanation": "explicit-state search without a separate model: every state is reached by executing the operations on the implementation plus, for the stream, every lock-granularity interleaving of the publisher body with CreateEventStream under the cooperative scheduler (engine E2)",
		},
		Violations: run.found,
		Harness:    sharness,
	}
	for k, x := range scov {
		res.Coverage[k] = x
	}
	return res
}

func init() {
	registerCheck(&CheckDef{Prop: "C20", Level: "model_checking", Technique: "explicit-state search over all Add/Resize sequences of the real ring buffer with every query in every state against a plain-slice reference", Custom: checkC20,
		Assumptions: []string{"stream: one publisher (the event system has one), 2-3 events, history counts 0,1,2,5, ring capacities 2 and 4; what is still buffered when the stream is closed is not judged"}})
}
