// Package props holds, per given property, the scenarios (closed worlds) and the monitors (oracles).
package props

import (
	"fmt"
	"sort"
	"strings"

	"verif/harness/internal/mc"
	"verif/harness/internal/world"
)

type Res = world.Res

func v(prop, rule, fp, format string, args ...interface{}) mc.Violation {
	return mc.Violation{Prop: prop, Rule: rule, FP: prop + ":" + rule + ":" + fp, Detail: fmt.Sprintf(format, args...)}
}

// funcMonitor adapts a function to mc.Monitor.
type funcMonitor struct {
	name string
	f    func(scn *world.Scenario, pre *world.Snap, st *world.Step, post *world.Snap, counts map[string]int) []mc.Violation
}

func (m funcMonitor) Name() string { return m.name }
func (m funcMonitor) Step(scn *world.Scenario, pre *world.Snap, st *world.Step, post *world.Snap, counts map[string]int) []mc.Violation {
	return m.f(scn, pre, st, post, counts)
}

func sortedKeys[V any](m map[string]V) []string {
	ks := make([]string, 0, len(m))
	for k := range m {
		ks = append(ks, k)
	}
	sort.Strings(ks)
	return ks
}

func sumRes(rs ...Res) Res {
	t := Res{}
	for _, r := range rs {
		t = t.Add(r)
	}
	return t
}

// activeApps returns the applications the partition lists as active.
func activeApps(s *world.Snap) map[string]*world.AppSnap {
	o := map[string]*world.AppSnap{}
	for id, a := range s.Apps {
		if a.Where == "active" && !strings.Contains(id, "#") {
			o[id] = a
		}
	}
	return o
}

// inflightReal reports whether key is the real half of an in-flight placeholder swap of app a:
// a released placeholder that still is an allocation of the application is linked to it.
func inflightReal(a *world.AppSnap, key string) (string, bool) {
	if _, isAlloc := a.Allocs[key]; isAlloc {
		return "", false
	}
	for _, k := range sortedKeys(a.Allocs) {
		ph := a.Allocs[k]
		if ph.Ph && ph.Released && ph.Release == key {
			return k, true
		}
	}
	return "", false
}

// queuePath lists the queue and its ancestors, leaf first.
func queuePathUp(s *world.Snap, leaf string) []*world.QueueSnap {
	var out []*world.QueueSnap
	for p := leaf; p != ""; {
		q := s.Queues[p]
		if q == nil {
			break
		}
		out = append(out, q)
		p = q.Parent
	}
	return out
}

func keysOfRes(r Res) []string { return sortedKeys(r) }

// schedulerCharged lists (node, key) pairs for non-foreign allocations that appear on a node in post but not in pre.
type charged struct {
	Node string
	Key  string
	Res  Res
	App  string
}

func newlyCharged(pre, post *world.Snap) []charged {
	var out []charged
	for _, n := range sortedKeys(post.Nodes) {
		pn := pre.Nodes[n]
		for _, k := range sortedKeys(post.Nodes[n].Allocs) {
			a := post.Nodes[n].Allocs[k]
			if a.Foreign {
				continue
			}
			if pn != nil {
				if _, had := pn.Allocs[k]; had {
					continue
				}
			}
			out = append(out, charged{Node: n, Key: k, Res: a.Res, App: a.App})
		}
	}
	return out
}

const yamlHeader = "partitions:\n  - name: default\n"

// common configurations
const confBasic = `partitions:
  - name: default
    queues:
      - name: root
        submitacl: "*"
        queues:
          - name: a
          - name: b
`
