package props

import (
	"github.com/apache/yunikorn-core/pkg/common/configs"
	"go.yaml.in/yaml/v3"
	"strings"
	"sync"
	"verif/harness/internal/mc"
	"verif/harness/internal/world"
)

// decision is one scheduler decision of a SCHEDULE step: an ask that became allocated through scheduling.
type decision struct {
	App, Key, Node string
	Res            Res
	Replaced       bool // placeholder replacement (real ask linked to a placeholder)
	Ph             bool
	PhKey          string // the placeholder a replacement takes the place of
}

// decisions lists the asks that the scheduling cycle of this step allocated (normal, reserved, placeholder, replacement).
func decisions(pre *world.Snap, st *world.Step, post *world.Snap) []decision {
	var out []decision
	if st.Op.K != "SCHEDULE" {
		return out
	}
	for _, id := range sortedKeys(post.Apps) {
		pa, qa := pre.Apps[id], post.Apps[id]
		if pa == nil || qa.Where != "active" {
			continue
		}
		for _, k := range sortedKeys(qa.Asks) {
			ask := qa.Asks[k]
			if !ask.Allocated {
				continue
			}
			if was, ok := pa.Asks[k]; ok && was.Allocated {
				continue
			}
			out = append(out, decision{App: id, Key: k, Node: ask.Node, Res: ask.Res, Replaced: ask.Release != "", Ph: ask.Ph, PhKey: ask.Release})
		}
	}
	return out
}

// C02: scheduling never takes a queue above its maximum.
func monC02() mc.Monitor {
	return funcMonitor{"C02", func(scn *world.Scenario, pre *world.Snap, st *world.Step, post *world.Snap, counts map[string]int) []mc.Violation {
		var out []mc.Violation
		if post == nil {
			return []mc.Violation{v("C02", "no-crash", st.Op.K, "op %s crashed/hung: %s%s", st.Op, firstLine(st.Panic), firstLine(st.Hang))}
		}
		if post.Gone {
			return nil
		}
		// invariant: the effective limit of a queue is never looser than its parent's
		for _, p := range sortedKeys(post.Queues) {
			q := post.Queues[p]
			par := post.Queues[q.Parent]
			if par == nil || par.EffMax == nil {
				continue
			}
			counts["C02.effective-max-vs-parent"]++
			for t, pv := range par.EffMax {
				qv, ok := q.EffMax[t]
				if !ok || qv > pv {
					out = append(out, v("C02", "effective-max-looser-than-parent", "type", "queue %s effective max %v is looser than its parent's %v on %s (after %s)", p, q.EffMax, par.EffMax, t, st.Op))
				}
			}
		}
		if st.Op.K != "SCHEDULE" {
			return out
		}
		for _, d := range decisions(pre, st, post) {
			app := pre.Apps[d.App]
			path := queuePathUp(pre, app.Queue)
			if d.Replaced {
				// a placeholder swap never increases queue usage
				counts["C02.swap-no-increase"]++
				for _, q := range path {
					if !post.Queues[q.Path].Allocated.FitsIn(q.Allocated) {
						out = append(out, v("C02", "swap-increases-queue-usage", "swap", "placeholder swap of %s increased usage of queue %s from %s to %s", d.Key, q.Path, q.Allocated, post.Queues[q.Path].Allocated))
					}
				}
				// the decision itself: once the swap completes the queue holds the real allocation instead of the placeholder;
				// on a type the real ask needs more of than the placeholder that must still be within the maximum
				if ph, ok := app.Allocs[d.PhKey]; ok {
					for _, q := range path {
						if q.Max == nil || q.Path == "root" {
							continue
						}
						counts["C02.swap-within-max"]++
						for _, t := range sortedKeys(d.Res) {
							mv, limited := q.Max[t]
							if limited && d.Res[t] > ph.Res[t] && q.Allocated[t]-ph.Res[t]+d.Res[t] > mv {
								out = append(out, v("C02", "swap-above-max", "swap", "scheduler decided to replace placeholder %s (%s) by %s (%s): queue %s goes from %s to %d %s, above its maximum %v", d.PhKey, ph.Res, d.Key, d.Res, q.Path, q.Allocated, q.Allocated[t]-ph.Res[t]+d.Res[t], t, q.Max))
							}
						}
					}
				}
				continue
			}
			for _, q := range path {
				pq := post.Queues[q.Path]
				if pq == nil {
					continue
				}
				if q.Path == "root" {
					counts["C02.root-max"]++
					for t, r := range d.Res {
						if r <= 0 {
							continue
						}
						mv, ok := q.Max[t]
						if !ok {
							out = append(out, v("C02", "type-not-provided-by-any-node", "root", "scheduler allocated %s (%s) although no registered node provides %s (root max %v)", d.Key, d.Res, t, q.Max))
						} else if pq.Allocated[t] > mv {
							out = append(out, v("C02", "root-above-cluster-size", "root", "scheduler allocated %s (%s): root usage %s exceeds the sum of node capacities %v", d.Key, d.Res, pq.Allocated, q.Max))
						}
					}
					continue
				}
				// the maximum of a configured queue is what the active document says, whatever the core remembers
				if dm, ok := confMaxOf(scn.Configs[post.Shim.Config])[q.Path]; ok {
					counts["C02.queue-max-of-active-document"]++
					for t, r := range d.Res {
						if r <= 0 {
							continue
						}
						if mv, limited := dm[t]; limited && pq.Allocated[t] > mv {
							out = append(out, v("C02", "queue-above-configured-max", "document", "scheduler allocated %s (%s) in %s: usage of queue %s is now %s, the active configuration (#%d) sets its maximum to %v", d.Key, d.Res, app.Queue, q.Path, pq.Allocated, post.Shim.Config, dm))
						}
					}
				}
				if q.Max == nil {
					continue
				}
				counts["C02.queue-max"]++
				for t, r := range d.Res {
					if r <= 0 {
						continue
					}
					if mv, ok := q.Max[t]; ok && pq.Allocated[t] > mv {
						kind := "ancestor"
						if q.Leaf {
							kind = "leaf"
						}
						out = append(out, v("C02", "queue-above-max", kind, "scheduler allocated %s (%s) in %s: usage of %s queue %s is now %s, above its maximum %v", d.Key, d.Res, app.Queue, kind, q.Path, pq.Allocated, q.Max))
					}
				}
			}
		}
		return out
	}}
}

// C11: queue max-applications gate.
func monC11() mc.Monitor {
	return funcMonitor{"C11", func(scn *world.Scenario, pre *world.Snap, st *world.Step, post *world.Snap, counts map[string]int) []mc.Violation {
		var out []mc.Violation
		if post == nil {
			return []mc.Violation{v("C11", "no-crash", st.Op.K, "op %s crashed/hung: %s%s", st.Op, firstLine(st.Panic), firstLine(st.Hang))}
		}
		if post.Gone {
			return nil
		}
		// subtree application sets
		below := func(s *world.Snap, path string) []string {
			var ids []string
			var walk func(p string)
			walk = func(p string) {
				q := s.Queues[p]
				if q == nil {
					return
				}
				ids = append(ids, q.Apps...)
				for _, c := range q.Children {
					walk(c)
				}
			}
			walk(path)
			return ids
		}
		for _, p := range sortedKeys(post.Queues) {
			q := post.Queues[p]
			ids := below(post, p)
			running := 0
			live := map[string]bool{}
			for _, id := range ids {
				live[id] = true
				if a := post.Apps[id]; a != nil && a.State == "Running" {
					running++
				}
			}
			if q.MaxApps > 0 || q.Running > 0 || len(q.AllocAcc) > 0 {
				counts["C11.queue-counters"]++
			}
			if q.MaxApps > 0 && q.Running > q.MaxApps {
				out = append(out, v("C11", "running-above-max", "count", "queue %s reports %d running applications, above its maximum %d (after %s)", p, q.Running, q.MaxApps, st.Op))
			}
			if int(q.Running) > running {
				out = append(out, v("C11", "running-above-actual", "count", "queue %s reports %d running applications but only %d applications below it are Running (after %s)", p, q.Running, running, st.Op))
			}
			for _, id := range q.AllocAcc {
				if !live[id] {
					out = append(out, v("C11", "allocating-not-live", "set", "queue %s reports %s as allocating but it is not a live application of its subtree (after %s)", p, id, st.Op))
				}
			}
			if len(ids) == 0 && (q.Running != 0 || len(q.AllocAcc) != 0) {
				out = append(out, v("C11", "empty-queue-nonzero", "empty", "queue %s has no applications but reports running=%d allocating=%v (after %s)", p, q.Running, q.AllocAcc, st.Op))
			}
		}
		// step rule
		seenApp := map[string]bool{}
		for _, d := range decisions(pre, st, post) {
			if seenApp[d.App] {
				continue
			}
			seenApp[d.App] = true
			app := pre.Apps[d.App]
			if app.State == "Running" {
				continue
			}
			path := queuePathUp(pre, app.Queue)
			tracked := false
			if len(path) > 0 {
				for _, id := range path[0].AllocAcc {
					if id == d.App {
						tracked = true
					}
				}
			}
			if tracked || app.State != "Accepted" {
				continue
			}
			for _, q := range path {
				if q.MaxApps == 0 {
					continue
				}
				counts["C11.gate"]++
				if q.Running+uint64(len(q.AllocAcc))+1 > q.MaxApps {
					out = append(out, v("C11", "gate-admits-beyond-limit", "gate", "application %s (untracked, %s) got its first allocation %s although queue %s had running=%d allocating=%v max=%d", d.App, app.State, d.Key, q.Path, q.Running, q.AllocAcc, q.MaxApps))
				}
			}
		}
		return out
	}}
}

var confMaxCache sync.Map

// confMaxOf returns the configured maximum of every queue of the first partition of a document (queue path -> type -> quantity).
func confMaxOf(doc string) map[string]Res {
	if m, ok := confMaxCache.Load(doc); ok {
		return m.(map[string]Res)
	}
	out := map[string]Res{}
	var sc configs.SchedulerConfig
	if err := yaml.Unmarshal([]byte(doc), &sc); err == nil && len(sc.Partitions) > 0 {
		var walk func(q *configs.QueueConfig, path string)
		walk = func(q *configs.QueueConfig, path string) {
			if len(q.Resources.Max) > 0 && path != "root" {
				r := Res{}
				for k, sv := range q.Resources.Max {
					val, _ := refParse(sv, k == "vcore")
					r[k] = val
				}
				out[path] = r
			}
			for i := range q.Queues {
				walk(&q.Queues[i], path+"."+strings.ToLower(q.Queues[i].Name))
			}
		}
		for i := range sc.Partitions[0].Queues {
			walk(&sc.Partitions[0].Queues[i], strings.ToLower(sc.Partitions[0].Queues[i].Name))
		}
	}
	confMaxCache.Store(doc, out)
	return out
}
