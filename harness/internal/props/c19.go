package props

import (
	"fmt"
	"runtime"
	"sort"
	"strconv"
	"sync"

	"github.com/apache/yunikorn-core/pkg/common/configs"
	"github.com/apache/yunikorn-core/pkg/common/resources"
	"github.com/apache/yunikorn-core/pkg/common/security"
	"github.com/apache/yunikorn-core/pkg/scheduler/objects"
	siCommon "github.com/apache/yunikorn-scheduler-interface/lib/go/common"
	"github.com/apache/yunikorn-scheduler-interface/lib/go/si"

	"verif/harness/internal/mc"
)

// C19: the order in which sibling queues, applications, asks and nodes are tried is a function of the documented
// sort keys only. Bounded exhaustive enumeration (E3): every set of candidates over a small key alphabet, presented
// to the REAL sort code in every permutation (the candidates reach the sorters through Go maps whose iteration
// order is the insertion order under the toolchain overlay, so "permutation" = creation order); oracle = an
// independent reference comparator: whenever it orders x strictly before y, x must come before y in the result.
// Nodes: explicit-state search over all add/remove/allocate/release/foreign/reserve histories of a real node
// collection; both iterators are checked in every state.

type c19Case struct {
	Kind   string      `json:"kind"`
	Policy string      `json:"policy,omitempty"`
	Prio   bool        `json:"prioritySort,omitempty"`
	Cands  interface{} `json:"candidates,omitempty"`
	Order  []int       `json:"presentedOrder,omitempty"`
	Ops    []string    `json:"ops,omitempty"`
}

type c19Run struct {
	mu         sync.Mutex
	evals      int
	states     int
	trans      int
	nontrivial map[string]bool
	found      []mc.Found
	fpSeen     map[string]int
	samples    []interface{}
	outcomes   map[string]bool
}

func (r *c19Run) fail(rule, fp string, c c19Case, format string, args ...interface{}) {
	r.mu.Lock()
	defer r.mu.Unlock()
	r.fpSeen[fp]++
	if r.fpSeen[fp] > 2 {
		return
	}
	r.found = append(r.found, mc.Found{Scenario: "c19", Viol: mc.Violation{Prop: "C19", Rule: rule, FP: "C19:" + rule + ":" + fp, Detail: fmt.Sprintf(format, args...)}, Custom: c})
}

// ---------------------------------------------------------------- queues

type qCand struct {
	Off   int32 `json:"priorityOffset"`
	Alloc int64 `json:"allocated"`
	Guar  int64 `json:"guaranteed"` // 0 = not set
	Max   int64 `json:"max"`        // 0 = not set
	Pend  int64 `json:"pending"`
	Pend2 int64 `json:"pendingVcore,omitempty"`
}

const c19RootMax = 16

func qmap(v int64) map[string]string {
	if v == 0 {
		return nil
	}
	return map[string]string{"memory": strconv.FormatInt(v, 10)}
}

func mkAsk(key, app string, mem, vcore int64, prio int32, create int64) *objects.Allocation {
	res := map[string]*si.Quantity{}
	if mem != 0 {
		res["memory"] = &si.Quantity{Value: mem}
	}
	if vcore != 0 {
		res["vcore"] = &si.Quantity{Value: vcore}
	}
	return objects.NewAllocationFromSI(&si.Allocation{AllocationKey: key, ApplicationID: app, PartitionName: "default",
		ResourcePerAlloc: &si.Resource{Resources: res}, Priority: prio,
		AllocationTags: map[string]string{siCommon.CreationTime: strconv.FormatInt(create, 10)}})
}

func mkApp(id string, q *objects.Queue) *objects.Application {
	app := objects.NewApplication(&si.AddApplicationRequest{ApplicationID: id, QueueName: q.GetQueuePath(), PartitionName: "default"},
		security.UserGroup{User: "u-" + id, Groups: []string{}}, nil, "rm")
	app.SetQueue(q)
	q.AddApplication(app)
	return app
}

// buildQueues creates root -> p -> children in the given presentation order and returns the parent and the children
// indexed by candidate number.
func buildQueues(policy string, prio bool, cands []qCand, order []int) (*objects.Queue, []*objects.Queue, error) {
	root, err := objects.NewConfiguredQueue(configs.QueueConfig{Name: "root", Parent: true}, nil, false, nil)
	if err != nil {
		return nil, nil, err
	}
	root.SetMaxResource(resources.NewResourceFromMap(map[string]resources.Quantity{"memory": c19RootMax, "vcore": c19RootMax}))
	pr := configs.ApplicationSortPriorityDisabled
	if prio {
		pr = configs.ApplicationSortPriorityEnabled
	}
	p, err := objects.NewConfiguredQueue(configs.QueueConfig{Name: "p", Parent: true,
		Properties: map[string]string{configs.ApplicationSortPolicy: policy, configs.ApplicationSortPriority: pr}}, root, false, nil)
	if err != nil {
		return nil, nil, err
	}
	qs := make([]*objects.Queue, len(cands))
	for _, ci := range order {
		c := cands[ci]
		name := "c" + strconv.Itoa(ci)
		q, err := objects.NewConfiguredQueue(configs.QueueConfig{Name: name,
			Properties: map[string]string{configs.PriorityOffset: strconv.Itoa(int(c.Off))},
			Resources:  configs.Resources{Guaranteed: qmap(c.Guar), Max: qmap(c.Max)}}, p, false, nil)
		if err != nil {
			return nil, nil, err
		}
		qs[ci] = q
		if c.Alloc != 0 {
			q.IncAllocatedResource(resources.NewResourceFromMap(map[string]resources.Quantity{"memory": resources.Quantity(c.Alloc)}), false)
		}
		if c.Pend != 0 || c.Pend2 != 0 {
			app := mkApp("app-"+name, q)
			if err := app.AddAllocationAsk(mkAsk("ask-"+name, "app-"+name, c.Pend, c.Pend2, 0, 1000)); err != nil {
				return nil, nil, err
			}
		}
	}
	return p, qs, nil
}

// reference: fair share of a queue = max over the allocated types of allocated/denominator, the denominator being the
// queue's own guaranteed quantity when set, else its maximum (inherited from the ancestors when it has none itself).
func (c qCand) share() float64 {
	if c.Alloc <= 0 {
		return 0
	}
	den := c.Guar
	if den == 0 {
		den = c.Max
	}
	if den == 0 {
		den = c19RootMax
	}
	return float64(c.Alloc) / float64(den)
}

func pendGreater(l, r qCand) bool { // l.pending strictly greater than r.pending (component-wise, at least one larger)
	return l.Pend >= r.Pend && l.Pend2 >= r.Pend2 && (l.Pend > r.Pend || l.Pend2 > r.Pend2)
}

// refQueueLess: does the documented policy order l strictly before r.
func refQueueLess(policy string, prio bool, l, r qCand) bool {
	fair := policy == "fair"
	switch {
	case fair && prio:
		if l.Off != r.Off {
			return l.Off > r.Off
		}
		if l.share() != r.share() {
			return l.share() < r.share()
		}
		return pendGreater(l, r)
	case fair:
		if l.share() != r.share() {
			return l.share() < r.share()
		}
		if l.Off != r.Off {
			return l.Off > r.Off
		}
		return pendGreater(l, r)
	case prio:
		return l.Off > r.Off
	}
	return false
}

func permutations(n int) [][]int {
	var out [][]int
	var rec func(cur []int, used []bool)
	rec = func(cur []int, used []bool) {
		if len(cur) == n {
			out = append(out, append([]int{}, cur...))
			return
		}
		for i := 0; i < n; i++ {
			if !used[i] {
				used[i] = true
				rec(append(cur, i), used)
				used[i] = false
			}
		}
	}
	rec(nil, make([]bool, n))
	return out
}

// combos calls f with every k-subset (as index list, ascending) of 0..n-1.
func combos(n, k int, f func(idx []int)) {
	idx := make([]int, k)
	var rec func(start, d int)
	rec = func(start, d int) {
		if d == k {
			f(append([]int{}, idx...))
			return
		}
		for i := start; i < n; i++ {
			idx[d] = i
			rec(i+1, d+1)
		}
	}
	rec(0, 0)
}

func (r *c19Run) checkQueueSet(policy string, prio bool, cands []qCand, twoType bool) {
	n := len(cands)
	distinguished := 0
	for i := 0; i < n; i++ {
		for j := 0; j < n; j++ {
			if i != j && refQueueLess(policy, prio, cands[i], cands[j]) {
				distinguished++
			}
		}
	}
	sig := ""
	for _, perm := range permutations(n) {
		c := c19Case{Kind: "queues", Policy: policy, Prio: prio, Cands: cands, Order: perm}
		p, qs, err := buildQueues(policy, prio, cands, perm)
		if err != nil {
			r.fail("harness", "build", c, "cannot build queues: %v", err)
			return
		}
		var sorted []*objects.Queue
		if pn := safely(func() { sorted = p.VerifSortQueues() }); pn != nil {
			r.fail("panic", "sortQueues", c, "sortQueues panicked: %v", pn)
			continue
		}
		pos := map[*objects.Queue]int{}
		for i, q := range sorted {
			pos[q] = i
		}
		r.mu.Lock()
		r.evals++
		r.mu.Unlock()
		// exactly the candidates with pending resources, once
		want := 0
		for i, cd := range cands {
			has := cd.Pend > 0 || cd.Pend2 > 0
			_, in := pos[qs[i]]
			if has {
				want++
			}
			if has != in {
				r.fail("queue-candidate-set", fmt.Sprintf("pending=%v", has), c, "queue c%d (pending %d) listed=%v among the sorted children", i, cd.Pend, in)
			}
		}
		if len(sorted) != want {
			r.fail("queue-candidate-set", "count", c, "sorted children: %d entries, %d candidates have pending resources", len(sorted), want)
			continue
		}
		res := ""
		for i := 0; i < n; i++ {
			pi, ok := pos[qs[i]]
			if !ok {
				continue
			}
			for j := 0; j < n; j++ {
				pj, ok2 := pos[qs[j]]
				if i == j || !ok2 {
					continue
				}
				if refQueueLess(policy, prio, cands[i], cands[j]) && pi > pj {
					fam := "single-type"
					if twoType {
						fam = "two-type-pending"
					}
					r.fail("queue-order", policy+"/prio="+strconv.FormatBool(prio)+"/"+fam, c,
						"policy %s prioritySort=%v: queue c%d %+v must be tried before c%d %+v (share %.3f vs %.3f) but came after it when the children were created in order %v",
						policy, prio, i, cands[i], j, cands[j], cands[i].share(), cands[j].share(), perm)
				}
			}
			res += strconv.Itoa(pi)
		}
		sig = res
	}
	if distinguished > 0 {
		r.mu.Lock()
		r.nontrivial[fmt.Sprintf("q|%s|%v|%v", policy, prio, cands)] = true
		r.outcomes["q:"+sig] = true
		r.mu.Unlock()
	}
}

// ---------------------------------------------------------------- applications

type aCand struct {
	Create int64 `json:"firstAskCreateTime"`
	Prio   int32 `json:"askPriority"`
	Alloc  int64 `json:"allocated"`
	Pend   int64 `json:"pending"`
}

func refAppLess(policy string, prio bool, guar int64, l, r aCand) bool {
	share := func(c aCand) float64 {
		if guar > 0 {
			return float64(c.Alloc) / float64(guar)
		}
		return float64(c.Alloc)
	}
	switch {
	case policy == "fair" && prio:
		if l.Prio != r.Prio {
			return l.Prio > r.Prio
		}
		return share(l) < share(r)
	case policy == "fair":
		if share(l) != share(r) {
			return share(l) < share(r)
		}
		return l.Prio > r.Prio
	case prio:
		if l.Prio != r.Prio {
			return l.Prio > r.Prio
		}
		return l.Create < r.Create
	default:
		if l.Create != r.Create {
			return l.Create < r.Create
		}
		return l.Prio > r.Prio
	}
}

func buildApps(policy string, prio bool, guar int64, cands []aCand, order []int) (*objects.Queue, []*objects.Application, error) {
	root, err := objects.NewConfiguredQueue(configs.QueueConfig{Name: "root", Parent: true}, nil, false, nil)
	if err != nil {
		return nil, nil, err
	}
	root.SetMaxResource(resources.NewResourceFromMap(map[string]resources.Quantity{"memory": c19RootMax}))
	pr := configs.ApplicationSortPriorityDisabled
	if prio {
		pr = configs.ApplicationSortPriorityEnabled
	}
	leaf, err := objects.NewConfiguredQueue(configs.QueueConfig{Name: "leaf",
		Properties: map[string]string{configs.ApplicationSortPolicy: policy, configs.ApplicationSortPriority: pr},
		Resources:  configs.Resources{Guaranteed: qmap(guar)}}, root, false, nil)
	if err != nil {
		return nil, nil, err
	}
	apps := make([]*objects.Application, len(cands))
	for _, ci := range order {
		c := cands[ci]
		id := "app" + strconv.Itoa(ci)
		app := mkApp(id, leaf)
		apps[ci] = app
		if c.Alloc > 0 {
			// an allocation the application already holds (created first: it also fixes the submission time)
			al := mkAsk("alloc-"+id, id, c.Alloc, 0, c.Prio, c.Create)
			al.SetNodeID("n1")
			app.RecoverAllocationAsk(al)
			app.AddAllocation(al)
		}
		if c.Pend > 0 {
			if err := app.AddAllocationAsk(mkAsk("ask-"+id, id, c.Pend, 0, c.Prio, c.Create)); err != nil {
				return nil, nil, err
			}
		}
	}
	return leaf, apps, nil
}

func (r *c19Run) checkAppSet(policy string, prio bool, guar int64, cands []aCand) {
	n := len(cands)
	distinguished := 0
	for i := 0; i < n; i++ {
		for j := 0; j < n; j++ {
			if i != j && cands[i].Pend > 0 && cands[j].Pend > 0 && refAppLess(policy, prio, guar, cands[i], cands[j]) {
				distinguished++
			}
		}
	}
	sig := ""
	for _, perm := range permutations(n) {
		c := c19Case{Kind: "applications", Policy: policy + "/guaranteed=" + strconv.FormatInt(guar, 10), Prio: prio, Cands: cands, Order: perm}
		leaf, apps, err := buildApps(policy, prio, guar, cands, perm)
		if err != nil {
			r.fail("harness", "build", c, "cannot build applications: %v", err)
			return
		}
		var sorted []*objects.Application
		if pn := safely(func() { sorted = leaf.VerifSortApplications(false) }); pn != nil {
			r.fail("panic", "sortApplications", c, "sortApplications panicked: %v", pn)
			continue
		}
		r.mu.Lock()
		r.evals++
		r.mu.Unlock()
		pos := map[*objects.Application]int{}
		for i, a := range sorted {
			pos[a] = i
		}
		want := 0
		for i, cd := range cands {
			_, in := pos[apps[i]]
			if cd.Pend > 0 {
				want++
			}
			if (cd.Pend > 0) != in {
				r.fail("app-candidate-set", fmt.Sprintf("pending=%v", cd.Pend > 0), c, "application app%d (pending %d) listed=%v among the sorted applications", i, cd.Pend, in)
			}
		}
		if len(sorted) != want {
			r.fail("app-candidate-set", "count", c, "sorted applications: %d entries, %d have pending resources", len(sorted), want)
			continue
		}
		res := ""
		for i := 0; i < n; i++ {
			pi, ok := pos[apps[i]]
			if !ok {
				continue
			}
			for j := 0; j < n; j++ {
				pj, ok2 := pos[apps[j]]
				if i == j || !ok2 {
					continue
				}
				if refAppLess(policy, prio, guar, cands[i], cands[j]) && pi > pj {
					r.fail("app-order", policy+"/prio="+strconv.FormatBool(prio), c,
						"policy %s prioritySort=%v guaranteed=%d: application app%d %+v must be tried before app%d %+v but came after it when the applications were added in order %v",
						policy, prio, guar, i, cands[i], j, cands[j], perm)
				}
			}
			res += strconv.Itoa(pi)
		}
		sig = res
	}
	if distinguished > 0 {
		r.mu.Lock()
		r.nontrivial[fmt.Sprintf("a|%s|%v|%d|%v", policy, prio, guar, cands)] = true
		r.outcomes["a:"+sig] = true
		r.mu.Unlock()
	}
}

// ---------------------------------------------------------------- asks

type askCand struct {
	Prio   int32 `json:"priority"`
	Create int64 `json:"createTime"`
}

// all insertion orders of every multiset of <= maxN asks, each followed by the removal of every single ask
func (r *c19Run) checkAsks(maxN int) {
	var alpha []askCand
	for _, p := range []int32{0, 5} {
		for _, c := range []int64{1000, 1001, 1002} {
			alpha = append(alpha, askCand{p, c})
		}
	}
	less := func(l, r askCand) bool {
		if l.Prio != r.Prio {
			return l.Prio > r.Prio
		}
		return l.Create < r.Create
	}
	var rec func(cur []askCand, start int)
	rec = func(cur []askCand, start int) {
		if len(cur) > 0 {
			for _, perm := range permutations(len(cur)) {
				for rm := -1; rm < len(cur); rm++ {
					c := c19Case{Kind: "asks", Cands: cur, Order: perm}
					if rm >= 0 {
						c.Ops = []string{"remove ask " + strconv.Itoa(rm)}
					}
					root, _ := objects.NewConfiguredQueue(configs.QueueConfig{Name: "root", Parent: true}, nil, false, nil)
					leaf, err := objects.NewConfiguredQueue(configs.QueueConfig{Name: "leaf"}, root, false, nil)
					if err != nil {
						r.fail("harness", "build", c, "%v", err)
						return
					}
					app := mkApp("app", leaf)
					for _, i := range perm {
						if err := app.AddAllocationAsk(mkAsk("k"+strconv.Itoa(i), "app", 1, 0, cur[i].Prio, cur[i].Create)); err != nil {
							r.fail("harness", "build", c, "%v", err)
							return
						}
					}
					if rm >= 0 {
						app.RemoveAllocationAsk("k" + strconv.Itoa(rm))
					}
					keys := app.VerifSortedRequestKeys()
					r.evals++
					pos := map[int]int{}
					for p, k := range keys {
						i, _ := strconv.Atoi(k[1:])
						if _, dup := pos[i]; dup {
							r.fail("ask-listed-twice", "dup", c, "ask %s appears twice in the scheduling order %v", k, keys)
						}
						pos[i] = p
					}
					wantN := len(cur)
					if rm >= 0 {
						wantN--
					}
					if len(keys) != wantN {
						r.fail("ask-candidate-set", "count", c, "scheduling order %v has %d entries, the application has %d asks", keys, len(keys), wantN)
						continue
					}
					sig := ""
					for i := range cur {
						pi, ok := pos[i]
						if !ok {
							continue
						}
						sig += strconv.Itoa(pi)
						for j := range cur {
							pj, ok2 := pos[j]
							if i != j && ok2 && less(cur[i], cur[j]) && pi > pj {
								r.fail("ask-order", "insert", c, "ask k%d %+v must be tried before k%d %+v, order is %v after inserting in order %v", i, cur[i], j, cur[j], keys, perm)
							}
						}
					}
					r.outcomes["k:"+sig] = true
				}
			}
			nt := false
			for i := range cur {
				for j := range cur {
					if less(cur[i], cur[j]) {
						nt = true
					}
				}
			}
			if nt {
				r.nontrivial[fmt.Sprintf("k|%v", cur)] = true
			}
		}
		if len(cur) == maxN {
			return
		}
		for i := start; i < len(alpha); i++ {
			rec(append(append([]askCand{}, cur...), alpha[i]), i)
		}
	}
	rec(nil, 0)
}

// ---------------------------------------------------------------- nodes

type nodeRefState struct {
	reg      bool
	cap      int64
	alloc    int64 // yunikorn allocations (each of size 1)
	nAlloc   int
	foreign  int64 // size of the foreign allocation (0 = none)
	reserved bool
	sched    bool
	extra    int  // real allocations that replaced a placeholder (never released by this alphabet)
	hasPh    bool // a placeholder of size 2 is on the node
}

type nodeWorld struct {
	nc    objects.NodeCollection
	nodes map[string]*objects.Node
	ref   map[string]*nodeRefState
	app   *objects.Application
	asks  map[string]*objects.Allocation
	seq   int
}

var c19NodeIDs = []string{"n1", "n2", "n3"}
var c19NodeCaps = map[string]int64{"n1": 4, "n2": 4, "n3": 8}

func newNodeWorld(policy string) *nodeWorld {
	w := &nodeWorld{nc: objects.NewNodeCollection("default"), nodes: map[string]*objects.Node{}, ref: map[string]*nodeRefState{}, asks: map[string]*objects.Allocation{}}
	w.nc.SetNodeSortingPolicy(objects.NewNodeSortingPolicy(policy, nil))
	root, _ := objects.NewConfiguredQueue(configs.QueueConfig{Name: "root", Parent: true}, nil, false, nil)
	leaf, _ := objects.NewConfiguredQueue(configs.QueueConfig{Name: "leaf"}, root, false, nil)
	w.app = mkApp("napp", leaf)
	for _, id := range c19NodeIDs {
		w.ref[id] = &nodeRefState{}
		w.asks[id] = mkAsk("resv-"+id, "napp", 1, 0, 0, 1000)
		if err := w.app.AddAllocationAsk(w.asks[id]); err != nil {
			panic("harness: " + err.Error())
		}
	}
	return w
}

func (w *nodeWorld) enabled() []string {
	var ops []string
	for _, id := range c19NodeIDs {
		s := w.ref[id]
		if !s.reg {
			ops = append(ops, "ADD "+id)
			continue
		}
		ops = append(ops, "REMOVE "+id)
		if s.alloc+s.foreign < s.cap {
			ops = append(ops, "ALLOC "+id)
		}
		if s.nAlloc > 0 {
			ops = append(ops, "RELEASE "+id, "RESIZE "+id)
		}
		if s.alloc+s.foreign+2 <= s.cap && !s.hasPh {
			ops = append(ops, "PLACEHOLDER "+id)
		}
		if s.hasPh {
			ops = append(ops, "REPLACE "+id)
		}
		if s.foreign == 0 {
			ops = append(ops, "FOREIGN_ADD "+id)
		} else {
			ops = append(ops, "FOREIGN_REMOVE "+id)
			if s.foreign == 1 {
				ops = append(ops, "FOREIGN_UPDATE "+id)
			}
		}
		if !s.reserved {
			ops = append(ops, "RESERVE "+id)
		} else {
			ops = append(ops, "UNRESERVE "+id)
		}
		if s.cap == c19NodeCaps[id] {
			ops = append(ops, "CAPACITY "+id)
		}
	}
	return ops
}

func memRes(v int64) *resources.Resource {
	return resources.NewResourceFromMap(map[string]resources.Quantity{"memory": resources.Quantity(v), "vcore": resources.Quantity(v)})
}

func (w *nodeWorld) apply(op string) {
	var kind, id string
	fmt.Sscanf(op, "%s %s", &kind, &id)
	s := w.ref[id]
	switch kind {
	case "ADD":
		n := objects.NewNode(&si.NodeInfo{NodeID: id, Attributes: map[string]string{}, SchedulableResource: &si.Resource{Resources: map[string]*si.Quantity{
			"memory": {Value: c19NodeCaps[id]}, "vcore": {Value: c19NodeCaps[id]}}}})
		w.nodes[id] = n
		_ = w.nc.AddNode(n)
		*s = nodeRefState{reg: true, cap: c19NodeCaps[id], sched: true}
	case "REMOVE":
		w.nc.RemoveNode(id)
		if s.reserved {
			w.app.UnReserve(w.nodes[id], w.asks[id])
		}
		*s = nodeRefState{}
	case "ALLOC":
		w.seq++
		al := mkAsk(fmt.Sprintf("al-%s-%d", id, s.nAlloc), "napp", 1, 1, 0, 1000)
		al.SetNodeID(id)
		w.nodes[id].AddAllocation(al)
		s.alloc++
		s.nAlloc++
	case "RELEASE":
		s.nAlloc--
		key := fmt.Sprintf("al-%s-%d", id, s.nAlloc)
		got := w.nodes[id].RemoveAllocation(key)
		s.alloc -= int64(got.GetAllocatedResource().Resources["memory"])
	case "PLACEHOLDER":
		ph := mkAsk("ph-"+id, "napp", 2, 2, 0, 1000)
		ph.SetNodeID(id)
		w.nodes[id].AddAllocation(ph)
		s.alloc += 2
		s.hasPh = true
	case "REPLACE":
		// the placeholder (2) is replaced on the same node by a real allocation of size 1
		w.seq++
		real := mkAsk(fmt.Sprintf("real-%s-%d", id, w.seq), "napp", 1, 1, 0, 1000)
		real.SetNodeID(id)
		w.nodes[id].ReplaceAllocation("ph-"+id, real, resources.Multiply(memRes(1), -1))
		s.alloc--
		s.hasPh = false
		s.extra++
	case "RESIZE":
		// in-place increase of the newest allocation by 1 (what PartitionContext.UpdateAllocation does)
		key := fmt.Sprintf("al-%s-%d", id, s.nAlloc-1)
		al := w.nodes[id].GetAllocation(key)
		al.SetAllocatedResource(resources.Add(al.GetAllocatedResource(), memRes(1)))
		w.nodes[id].UpdateAllocatedResource(memRes(1))
		s.alloc++
	case "FOREIGN_ADD":
		w.nodes[id].AddAllocation(objects.NewAllocationFromSI(&si.Allocation{AllocationKey: "f-" + id, NodeID: id, ResourcePerAlloc: &si.Resource{Resources: map[string]*si.Quantity{"memory": {Value: 1}, "vcore": {Value: 1}}},
			AllocationTags: map[string]string{siCommon.Foreign: siCommon.AllocTypeDefault}}))
		s.foreign = 1
	case "FOREIGN_UPDATE":
		w.nodes[id].UpdateForeignAllocation(objects.NewAllocationFromSI(&si.Allocation{AllocationKey: "f-" + id, NodeID: id, ResourcePerAlloc: &si.Resource{Resources: map[string]*si.Quantity{"memory": {Value: 3}, "vcore": {Value: 3}}},
			AllocationTags: map[string]string{siCommon.Foreign: siCommon.AllocTypeDefault}}))
		s.foreign = 3
	case "FOREIGN_REMOVE":
		w.nodes[id].RemoveAllocation("f-" + id)
		s.foreign = 0
	case "RESERVE":
		if err := w.app.Reserve(w.nodes[id], w.asks[id]); err != nil {
			panic("harness: reserve failed: " + err.Error())
		}
		s.reserved = true
	case "UNRESERVE":
		w.app.UnReserve(w.nodes[id], w.asks[id])
		s.reserved = false
	case "CAPACITY":
		w.nodes[id].SetCapacity(memRes(s.cap + 4))
		s.cap += 4
	}
}

func (w *nodeWorld) key() string {
	k := ""
	for _, id := range c19NodeIDs {
		s := w.ref[id]
		k += fmt.Sprintf("%v,%d,%d,%d,%d,%v,%v,%d|", s.reg, s.cap, s.alloc, s.nAlloc, s.foreign, s.reserved, s.hasPh, s.extra)
	}
	return k
}

// score by the documented policy, computed fresh from the reference books: used share = (allocated+foreign)/capacity
func (s *nodeRefState) score(policy string) float64 {
	used := float64(s.alloc+s.foreign) / float64(s.cap)
	if policy == "binpacking" {
		return 1 - used
	}
	return used
}

func (r *c19Run) checkNodeState(policy string, path []string, w *nodeWorld) bool {
	ok := true
	c := c19Case{Kind: "nodes", Policy: policy, Ops: path}
	for _, view := range []string{"full", "unreserved"} {
		it := w.nc.GetFullNodeIterator()
		if view == "unreserved" {
			it = w.nc.GetNodeIterator()
		}
		var visited []string
		if it != nil {
			it.ForEachNode(func(n *objects.Node) bool { visited = append(visited, n.NodeID); return true })
		}
		r.evals++
		seen := map[string]int{}
		for _, id := range visited {
			seen[id]++
		}
		for _, id := range c19NodeIDs {
			s := w.ref[id]
			want := 0
			if s.reg && (view == "full" || !s.reserved) {
				want = 1
			}
			if seen[id] != want {
				ok = false
				r.fail("node-visit-count", view, c, "policy %s, %s iterator after %v visits node %s %d times, expected %d (registered=%v reserved=%v): visited %v", policy, view, path, id, seen[id], want, s.reg, s.reserved, visited)
			}
		}
		for i := 0; i+1 < len(visited); i++ {
			a, b := w.ref[visited[i]], w.ref[visited[i+1]]
			if !a.reg || !b.reg {
				continue
			}
			if a.score(policy) > b.score(policy) {
				ok = false
				last := staleClass(path, visited[i], visited[i+1])
				r.fail("node-order-stale", last, c, "policy %s, %s iterator after %v visits %s (used %d+%d of %d) before %s (used %d+%d of %d): not in the order of current utilisation",
					policy, view, path, visited[i], a.alloc, a.foreign, a.cap, visited[i+1], b.alloc, b.foreign, b.cap)
			}
		}
		if len(visited) > 1 {
			r.outcomes["n:"+fmt.Sprint(visited)] = true
		}
	}
	return ok
}

// staleClass classifies a misordered pair by the last utilisation-changing operation applied to either node.
func staleClass(path []string, a, b string) string {
	lastOf := func(id string) string {
		k := "none"
		for _, o := range path {
			var kind, n string
			fmt.Sscanf(o, "%s %s", &kind, &n)
			if n == id && kind != "RESERVE" && kind != "UNRESERVE" && kind != "ADD" {
				k = kind
			}
		}
		return k
	}
	ka, kb := lastOf(a), lastOf(b)
	for _, cls := range []string{"FOREIGN_ADD", "FOREIGN_UPDATE", "FOREIGN_REMOVE", "RESIZE"} {
		if ka == cls || kb == cls {
			return "after-" + cls
		}
	}
	if ka > kb {
		ka, kb = kb, ka
	}
	return "after-" + ka + "+" + kb
}

func (r *c19Run) exploreNodes(policy string, depth int) {
	type st struct{ path []string }
	seen := map[string]bool{}
	frontier := []st{{}}
	w0 := newNodeWorld(policy)
	seen[w0.key()] = true
	r.states++
	for d := 0; d < depth && len(frontier) > 0; d++ {
		var next []st
		for _, cur := range frontier {
			w := newNodeWorld(policy)
			for _, o := range cur.path {
				w.apply(o)
			}
			for _, o := range w.enabled() {
				w2 := newNodeWorld(policy)
				for _, p := range cur.path {
					w2.apply(p)
				}
				path := append(append([]string{}, cur.path...), o)
				if pn := safely(func() { w2.apply(o) }); pn != nil {
					r.fail("panic", "node-op", c19Case{Kind: "nodes", Policy: policy, Ops: path}, "node history %v panicked: %v", path, pn)
					continue
				}
				r.trans++
				if !r.checkNodeState(policy, path, w2) {
					continue // a violating state is reported once and not expanded further
				}
				k := w2.key()
				if !seen[k] {
					seen[k] = true
					r.states++
					if registered(w2) >= 2 {
						r.nontrivial["n|"+policy+"|"+k] = true
					}
					next = append(next, st{path})
				}
			}
		}
		frontier = next
	}
}

func registered(w *nodeWorld) int {
	n := 0
	for _, s := range w.ref {
		if s.reg {
			n++
		}
	}
	return n
}

// ---------------------------------------------------------------- driver

func parallelDo(n int, f func(i int)) {
	workers := runtime.NumCPU()
	var wg sync.WaitGroup
	ch := make(chan int, 1024)
	for w := 0; w < workers; w++ {
		wg.Add(1)
		go func() {
			defer wg.Done()
			for i := range ch {
				f(i)
			}
		}()
	}
	for i := 0; i < n; i++ {
		ch <- i
	}
	close(ch)
	wg.Wait()
}

func checkC19(tier string, seed int64) *CustomResult {
	run := &c19Run{nontrivial: map[string]bool{}, fpSeen: map[string]int{}, outcomes: map[string]bool{}}
	thorough := tier == "thorough"
	// ---- queues
	var qAlpha []qCand
	offs := []int32{0, 5}
	allocs := []int64{0, 1, 3}
	guars := []int64{0, 2, 4}
	maxs := []int64{0, 4, 8}
	pends := []int64{1, 2}
	if thorough {
		offs = []int32{-1, 0, 5}
	}
	for _, o := range offs {
		for _, a := range allocs {
			for _, g := range guars {
				for _, m := range maxs {
					if g > 0 && m > 0 && g > m {
						continue
					}
					for _, p := range pends {
						qAlpha = append(qAlpha, qCand{Off: o, Alloc: a, Guar: g, Max: m, Pend: p})
					}
				}
			}
		}
	}
	qAlpha = append(qAlpha, qCand{Off: 0, Alloc: 1, Pend: 0}) // a queue without pending resources is never a candidate
	type qjob struct {
		policy string
		prio   bool
		idx    []int
	}
	var qjobs []qjob
	// quick: pairs over the full alphabet, triples over the candidates with pending 1 (thorough: all triples)
	var tripleBase []int
	for i, c := range qAlpha {
		if thorough || c.Pend <= 1 {
			tripleBase = append(tripleBase, i)
		}
	}
	for _, pol := range []string{"fair", "fifo"} {
		for _, pr := range []bool{false, true} {
			if pol == "fifo" && !pr && !thorough {
				continue // no ordering at all is defined: thorough only
			}
			combos(len(qAlpha), 2, func(idx []int) { qjobs = append(qjobs, qjob{pol, pr, idx}) })
			combos(len(tripleBase), 3, func(idx []int) {
				qjobs = append(qjobs, qjob{pol, pr, []int{tripleBase[idx[0]], tripleBase[idx[1]], tripleBase[idx[2]]}})
			})
		}
	}
	// sets of four over a reduced alphabet (every 5th candidate; thorough: every 3rd)
	step := 7
	if thorough {
		step = 4
	}
	var red []int
	for i := int(seed%int64(step)+int64(step)) % step; i < len(qAlpha); i += step {
		red = append(red, i)
	}
	for _, pol := range []string{"fair"} {
		for _, pr := range []bool{false, true} {
			combos(len(red), 4, func(idx []int) {
				m := make([]int, 4)
				for i, x := range idx {
					m[i] = red[x]
				}
				qjobs = append(qjobs, qjob{pol, pr, m})
			})
		}
	}
	parallelDo(len(qjobs), func(i int) {
		j := qjobs[i]
		cands := make([]qCand, len(j.idx))
		for k, x := range j.idx {
			cands[k] = qAlpha[x]
		}
		run.checkQueueSet(j.policy, j.prio, cands, false)
	})
	// two-type pending family (the tie-break on pending is a partial order there)
	var q2 []qCand
	for _, p := range [][2]int64{{1, 0}, {0, 1}, {2, 1}, {1, 2}, {2, 2}} {
		for _, a := range []int64{0, 2} {
			q2 = append(q2, qCand{Alloc: a, Guar: 4, Pend: p[0], Pend2: p[1]})
		}
	}
	var q2jobs [][]int
	for _, k := range []int{2, 3, 4} {
		combos(len(q2), k, func(idx []int) { q2jobs = append(q2jobs, idx) })
	}
	parallelDo(len(q2jobs), func(i int) {
		cands := make([]qCand, len(q2jobs[i]))
		for k, x := range q2jobs[i] {
			cands[k] = q2[x]
		}
		run.checkQueueSet("fair", false, cands, true)
	})
	// ---- applications
	var aAlpha []aCand
	for _, cr := range []int64{1000, 1001, 1002} {
		for _, p := range []int32{0, 5} {
			for _, a := range []int64{0, 1, 3} {
				aAlpha = append(aAlpha, aCand{Create: cr, Prio: p, Alloc: a, Pend: 1})
			}
		}
	}
	aAlpha = append(aAlpha, aCand{Create: 999, Prio: 9, Alloc: 1, Pend: 0}) // no pending: never a candidate
	type ajob struct {
		policy string
		prio   bool
		guar   int64
		idx    []int
	}
	var ajobs []ajob
	asz := []int{2, 3}
	if thorough {
		asz = []int{2, 3, 4}
	}
	for _, pol := range []string{"fifo", "fair"} {
		for _, pr := range []bool{false, true} {
			for _, g := range []int64{0, 4} {
				if pol == "fifo" && g != 0 {
					continue
				}
				for _, k := range asz {
					combos(len(aAlpha), k, func(idx []int) { ajobs = append(ajobs, ajob{pol, pr, g, idx}) })
				}
			}
		}
	}
	parallelDo(len(ajobs), func(i int) {
		j := ajobs[i]
		cands := make([]aCand, len(j.idx))
		for k, x := range j.idx {
			cands[k] = aAlpha[x]
		}
		run.checkAppSet(j.policy, j.prio, j.guar, cands)
	})
	// ---- asks and nodes (sequential: small)
	run.checkAsks(4)
	ndepth := 5
	if thorough {
		ndepth = 6
	}
	for _, pol := range []string{"fair", "binpacking"} {
		run.exploreNodes(pol, ndepth)
		if pol == "fair" {
			run.explorePolicies(ndepth + 1)
		}
	}
	sort.Slice(run.found, func(i, j int) bool { return run.found[i].Viol.FP < run.found[j].Viol.FP })
	samples := []interface{}{
		c19Case{Kind: "queues", Policy: "fair", Prio: true, Cands: []qCand{qAlpha[0], qAlpha[len(qAlpha)/2], qAlpha[len(qAlpha)-2]}, Order: []int{2, 0, 1}},
		c19Case{Kind: "applications", Policy: "fifo", Prio: false, Cands: []aCand{aAlpha[0], aAlpha[7]}, Order: []int{1, 0}},
		c19Case{Kind: "nodes", Policy: "fair", Ops: []string{"ADD n1", "ADD n2", "ALLOC n1", "FOREIGN_ADD n2", "FOREIGN_UPDATE n2"}},
	}
	return &CustomResult{
		Coverage: map[string]interface{}{
			"evaluations": run.evals, "distinct_nontrivial": len(run.nontrivial), "exhaustive": true, "samples": samples,
			"states": run.states, "transitions": run.trans, "traces_validated_against_impl": run.trans,
			"distinct_observed_orders": len(run.outcomes),
			"queue_candidates":         len(qAlpha), "queue_sets": len(qjobs) + len(q2jobs), "application_candidates": len(aAlpha), "application_sets": len(ajobs),
			"rule": fmt.Sprintf("queues: every pair, every triple (quick: of the candidates with pending 1) and every set of 4 over every %dth candidate out of %d key tuples {priority offset, allocated, guaranteed, max, pending} x {fair,fifo} x priority sort on/off, children created in EVERY permutation and sorted by the real Queue.sortQueues; applications: every set of size %v out of %d key tuples x 6 policy combinations through the real Queue.sortApplications; asks: every insertion order of every multiset of <= 4 asks (+ one removal); nodes: every history of depth <= %d over add/remove/allocate/release/resize/placeholder/replace/foreign add,update,remove/reserve/unreserve/capacity on 3 nodes of the real node collection, both iterators checked in every state, for fair and binpacking. one evaluation = one real sort of one presented order. non-trivial = a candidate set in which the reference comparator strictly orders at least one pair / a node state with >= 2 registered nodes", step, len(qAlpha), asz, len(aAlpha), ndepth),
		},
		Violations: run.found,
	}
}

func init() {
	registerCheck(&CheckDef{Prop: "C19", Level: "exploration", Technique: "bounded exhaustive enumeration of candidate sets x all presentation orders through the real sorters against an independent reference comparator; explicit-state search over node histories for the iterators", Custom: checkC19,
		Assumptions: []string{"key alphabets are small (see rule); resource vectors use one type for the fair-share keys", "map iteration order = creation order (toolchain overlay), so creation order enumerates every presentation order"}})
}

// ---------------------------------------------------------------- node sorting policy changed by a reload

// policyWorld: two nodes with memory, vcore and gpu; allocations that use memory only or gpu only (so the resource types
// are used unevenly); the sorting policy (type and resource weights) is replaced at any point, as a reload does. Oracle:
// differential, the order of the collection equals the order of a fresh collection holding the same nodes under the
// current policy (ties are broken by node id in both).
type policyWorld struct {
	nc    objects.NodeCollection
	nodes map[string]*objects.Node
	reg   map[string]bool
	mem   map[string]int
	gpu   map[string]int
	pol   int
	seq   int
}

type c19Policy struct {
	typ     string
	weights map[string]float64
}

var c19Policies = []c19Policy{
	{"fair", nil}, {"fair", map[string]float64{"vcore": 1, "memory": 1, "gpu": 4}}, {"fair", map[string]float64{"vcore": 1, "memory": 1}}, {"fair", map[string]float64{"memory": 1}}, {"fair", map[string]float64{"gpu": 1}},
	{"binpacking", nil}, {"binpacking", map[string]float64{"vcore": 1, "memory": 1, "gpu": 4}}, {"binpacking", map[string]float64{"memory": 1}},
}

func (p c19Policy) String() string { return fmt.Sprintf("%s%v", p.typ, p.weights) }

func newPolicyWorld() *policyWorld {
	w := &policyWorld{nc: objects.NewNodeCollection("default"), nodes: map[string]*objects.Node{}, reg: map[string]bool{}, mem: map[string]int{}, gpu: map[string]int{}}
	w.nc.SetNodeSortingPolicy(objects.NewNodeSortingPolicy(c19Policies[0].typ, c19Policies[0].weights))
	return w
}

func (w *policyWorld) enabled() []string {
	var ops []string
	for _, id := range []string{"n1", "n2"} {
		if !w.reg[id] {
			ops = append(ops, "ADD "+id)
			continue
		}
		if w.mem[id] < 2 {
			ops = append(ops, "ALLOC_MEM "+id)
		}
		if w.gpu[id] < 2 {
			ops = append(ops, "ALLOC_GPU "+id)
		}
	}
	for i := range c19Policies {
		if i != w.pol {
			ops = append(ops, fmt.Sprintf("POLICY %d", i))
		}
	}
	return ops
}

func (w *policyWorld) apply(op string) {
	var kind, arg string
	fmt.Sscanf(op, "%s %s", &kind, &arg)
	switch kind {
	case "ADD":
		n := objects.NewNode(&si.NodeInfo{NodeID: arg, Attributes: map[string]string{}, SchedulableResource: &si.Resource{Resources: map[string]*si.Quantity{
			"memory": {Value: 4}, "vcore": {Value: 4}, "gpu": {Value: 4}}}})
		w.nodes[arg] = n
		_ = w.nc.AddNode(n)
		w.reg[arg] = true
	case "ALLOC_MEM", "ALLOC_GPU":
		w.seq++
		typ := "memory"
		if kind == "ALLOC_GPU" {
			typ = "gpu"
			w.gpu[arg]++
		} else {
			w.mem[arg]++
		}
		al := objects.NewAllocationFromSI(&si.Allocation{AllocationKey: fmt.Sprintf("pa-%d", w.seq), ApplicationID: "papp", PartitionName: "default", NodeID: arg,
			ResourcePerAlloc: &si.Resource{Resources: map[string]*si.Quantity{typ: {Value: 1}}}, AllocationTags: map[string]string{siCommon.CreationTime: "1000"}})
		w.nodes[arg].AddAllocation(al)
	case "POLICY":
		i, _ := strconv.Atoi(arg)
		w.pol = i
		w.nc.SetNodeSortingPolicy(objects.NewNodeSortingPolicy(c19Policies[i].typ, c19Policies[i].weights))
	}
}

func (w *policyWorld) key() string {
	return fmt.Sprintf("%v%v|%d%d|%d%d|%d", w.reg["n1"], w.reg["n2"], w.mem["n1"], w.mem["n2"], w.gpu["n1"], w.gpu["n2"], w.pol)
}

func (w *policyWorld) order(nc objects.NodeCollection) []string {
	var out []string
	if it := nc.GetFullNodeIterator(); it != nil {
		it.ForEachNode(func(n *objects.Node) bool { out = append(out, n.NodeID); return true })
	}
	return out
}

func (r *c19Run) explorePolicies(depth int) {
	build := func(path []string) *policyWorld {
		w := newPolicyWorld()
		for _, o := range path {
			w.apply(o)
		}
		return w
	}
	seen := map[string]bool{newPolicyWorld().key(): true}
	frontier := [][]string{{}}
	for d := 0; d < depth && len(frontier) > 0; d++ {
		var next [][]string
		for _, cur := range frontier {
			for _, o := range build(cur).enabled() {
				path := append(append([]string{}, cur...), o)
				w := build(path)
				r.trans++
				r.evals++
				got := w.order(w.nc)
				fresh := objects.NewNodeCollection("fresh")
				fresh.SetNodeSortingPolicy(objects.NewNodeSortingPolicy(c19Policies[w.pol].typ, c19Policies[w.pol].weights))
				for _, id := range []string{"n1", "n2"} {
					if w.reg[id] {
						_ = fresh.AddNode(w.nodes[id])
					}
				}
				want := w.order(fresh)
				if len(got) > 1 {
					r.outcomes["p:"+fmt.Sprint(got)+c19Policies[w.pol].String()] = true
				}
				if fmt.Sprint(got) != fmt.Sprint(want) {
					r.fail("node-order-after-policy-change", "differs-from-fresh-collection", c19Case{Kind: "policies", Policy: c19Policies[w.pol].String(), Ops: path},
						"after %v the nodes are visited as %v; a fresh collection with the same nodes under policy %s visits %v", path, got, c19Policies[w.pol], want)
					continue
				}
				if k := w.key(); !seen[k] {
					seen[k] = true
					r.states++
					next = append(next, path)
				}
			}
		}
		frontier = next
	}
}
