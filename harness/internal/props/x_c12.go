package props

import (
	"fmt"
	"sort"
	"strings"
	"time"

	"github.com/apache/yunikorn-scheduler-interface/lib/go/si"

	"verif/harness/internal/mc"
	"verif/harness/internal/world"
)

// C12: restart recovery rebuilds the same accounting. Crash-point enumeration on top of the explicit-state search
// (engine E1): every explored state is a point at which the core is stopped; from what the shim knows at that point
// a NEW real core is built with the latest configuration and the shim replays nodes, foreign allocations,
// applications (force create), bound allocations (placeholders included) and outstanding asks, in every order of
// the applications and of the allocations (bounded number of permutations). The new core must accept everything
// and end with the same totals; two scheduling cycles afterwards run under the capacity, quota and accounting rules.

type c12Item struct {
	kind string // app | bound | ask
	id   string
}

func permsCapped(n, max int) [][]int {
	all := permutations(n)
	if len(all) <= max {
		return all
	}
	// a bounded, deterministic selection: identity, reverse and every (len/max)-th permutation
	out := [][]int{all[0], all[len(all)-1]}
	step := len(all) / (max - 2)
	for i := step; i < len(all)-1 && len(out) < max; i += step {
		out = append(out, all[i])
	}
	return out
}

func c12Extra(scn *world.Scenario, path []world.Op, counts map[string]int) (int, map[string]bool, []mc.Violation) {
	distinct := map[string]bool{}
	var viol []mc.Violation
	evals := 0
	// ---- the old core at the crash point
	w1, err := world.New(scn)
	if err != nil {
		return 0, distinct, nil
	}
	for _, o := range path {
		w1.Apply(o)
	}
	old := w1.Snapshot()
	m := w1.Model.Clone()
	oldMem := map[string]string{}
	for k, x := range w1.Mem {
		oldMem[k] = x
	}
	w1.Close()
	if old.Gone {
		return 0, distinct, nil
	}
	if !m.Quiescent() {
		counts["C12.skipped-release-awaiting-confirmation"]++
		return 0, distinct, nil
	}
	// histories on which a recorded (known, unrepaired) defect of C03 has already corrupted the OLD core's books are
	// not crash points at which "the same totals" is meaningful: counted and skipped
	for _, tag := range []string{"ctx:ph-timeout-during-swap", "ctx:real-released-during-swap", "ctx:ask-on-failing-app", "ctx:ph-timeout-real-allocation-not-running"} {
		if oldMem[tag] != "" {
			counts["C12.skipped-old-core-corrupted-by-known-finding"]++
			return 0, distinct, nil
		}
	}
	for _, a := range old.Apps {
		for k, ask := range a.Asks {
			if ask.Allocated && ask.Release != "" {
				if _, isAlloc := a.Allocs[k]; !isAlloc {
					counts["C12.skipped-swap-in-flight"]++
					return 0, distinct, nil
				}
			}
		}
	}
	// what the shim replays
	var apps, allocs []string
	for _, id := range sortedKeys(m.Apps) {
		if m.Apps[id] == "accepted" {
			apps = append(apps, id)
		}
	}
	for _, k := range sortedKeys(m.Keys) {
		ks := m.Keys[k]
		if m.Apps[ks.App] != "accepted" {
			continue
		}
		if ks.State == "bound" || ks.State == "ask" {
			allocs = append(allocs, k)
		}
	}
	appPerms := permsCapped(len(apps), 6)
	allocPerms := permsCapped(len(allocs), 6)
	rec := *scn
	rec.Configs = []string{scn.Configs[m.Config]}
	rec.Prefix = nil
	rec.Name = scn.Name + "-recovery"
	for _, ap := range appPerms {
		for _, alp := range allocPerms {
			evals++
			label := fmt.Sprintf("apps%v allocs%v", ap, alp)
			w2, err := world.New(&rec)
			if err != nil {
				viol = append(viol, v("C12", "recovery-config-not-loadable", "config", "the configuration that was active at the crash point does not load into a new core: %v", err))
				return evals, distinct, viol
			}
			var rejected []string
			crash := ""
			send := func(what string, f func()) {
				if crash != "" {
					return
				}
				st := w2.Run(world.Op{K: "RECOVER", A: what}, f)
				if st.Panic != "" || st.Hang != "" {
					crash = what + ": " + firstLine(st.Panic) + firstLine(st.Hang)
					return
				}
				for _, o := range st.Out {
					if o.T == "apprej" || o.T == "noderej" || o.T == "allocrej" {
						rejected = append(rejected, fmt.Sprintf("%s %s%s%s: %s", o.T, o.App, o.Node, o.Key, o.Msg))
					}
				}
			}
			for _, n := range sortedKeys(m.Nodes) {
				action := si.NodeInfo_CREATE
				if m.Nodes[n] == "draining" {
					action = si.NodeInfo_CREATE_DRAIN
				}
				nn := n
				send("node "+n, func() {
					w2.SendRawNode(&si.NodeRequest{RmID: world.RMID, Nodes: []*si.NodeInfo{w2.RawNode(nn, action, m.NodeCap[nn])}})
				})
			}
			for _, fk := range sortedKeys(m.Foreign) {
				fs := scn.ForeignSpec(fk)
				res := fs.Res
				if m.ForeignV[fk] == 2 {
					res = fs.Res2
				}
				send("foreign "+fk, func() {
					w2.SendRawAlloc(&si.AllocationRequest{RmID: world.RMID, Allocations: []*si.Allocation{w2.RawForeign(fs, res)}})
				})
			}
			for _, i := range ap {
				spec := scn.App(apps[i])
				send("app "+spec.ID, func() {
					w2.SendRawApp(&si.ApplicationRequest{RmID: world.RMID, New: []*si.AddApplicationRequest{w2.RawApp(spec, true)}})
				})
			}
			for _, i := range alp {
				k := allocs[i]
				ks := m.Keys[k]
				spec := scn.Ask(k)
				res := spec.Res
				if m.Resized[k] {
					res = spec.Resize
				}
				node := ""
				if ks.State == "bound" {
					node = ks.Node
				}
				send("allocation "+k, func() {
					w2.SendRawAlloc(&si.AllocationRequest{RmID: world.RMID, Allocations: []*si.Allocation{w2.RawAsk(spec, res, node)}})
				})
			}
			if crash != "" {
				viol = append(viol, v("C12", "recovery-crashes", "crash", "replaying the shim's state into a new core crashed at %s (order %s)", crash, label))
				w2.Close()
				continue
			}
			counts["C12.recovered-cores"]++
			if len(rejected) > 0 {
				viol = append(viol, v("C12", "recovery-rejects", strings.SplitN(rejected[0], " ", 2)[0], "the new core rejected part of the replay (order %s): %s", label, strings.Join(rejected, "; ")))
			}
			rs := w2.Snapshot()
			distinct[fmt.Sprintf("%d apps %d allocs %d nodes %d foreign|%s", len(apps), len(allocs), len(m.Nodes), len(m.Foreign), label)] = true
			viol = append(viol, c12Compare(old, rs, m, label)...)
			// scheduling afterwards still respects the capacity, quota and accounting rules
			w2.Model = m.Clone()
			w2.Model.Config = 0
			// everything the shim replayed is an RM-forced change for the monitors (bound allocations, foreign pods,
			// capacities), as are the forced changes before the crash
			for k, x := range oldMem {
				w2.Mem[k] = x
			}
			for _, k := range allocs {
				if ks := m.Keys[k]; ks.State == "bound" {
					w2.Mem["forced:"+ks.Node] = "1"
					w2.Mem["forcedq:"+ks.App] = "1"
				}
			}
			for _, n := range m.Foreign {
				w2.Mem["forced:"+n] = "1"
			}
			for i := 0; i < 2; i++ {
				pre := w2.Snapshot()
				st := w2.Apply(world.Op{K: "SCHEDULE"})
				if st.Panic != "" || st.Hang != "" {
					viol = append(viol, v("C12", "recovery-crashes", "schedule", "scheduling on the recovered core crashed: %s%s", firstLine(st.Panic), firstLine(st.Hang)))
					break
				}
				post := w2.Snapshot()
				sub := map[string]int{}
				for _, mon := range []mc.Monitor{monC01(), monC03()} {
					for _, x := range mon.Step(&rec, pre, st, post, sub) {
						viol = append(viol, v("C12", "after-recovery-"+x.Rule, x.Prop, "scheduling on the recovered core (order %s): %s", label, x.Detail))
					}
				}
				counts["C12.schedule-after-recovery"]++
			}
			w2.Close()
		}
	}
	return evals, distinct, viol
}

// c12Compare: the same per-node, per-queue, per-application and per-user allocated and pending totals.
func c12Compare(old, rec *world.Snap, m *world.ShimModel, label string) []mc.Violation {
	var out []mc.Violation
	for _, n := range sortedKeys(old.Nodes) {
		o, r := old.Nodes[n], rec.Nodes[n]
		if r == nil {
			out = append(out, v("C12", "node-missing-after-recovery", "node", "node %s is not in the recovered core (order %s)", n, label))
			continue
		}
		if !o.Allocated.Equal(r.Allocated) || !o.Occupied.Equal(r.Occupied) || !o.Cap.Equal(r.Cap) || o.Schedulable != r.Schedulable {
			out = append(out, v("C12", "node-totals-differ", "node", "node %s: old core capacity %s allocated %s occupied %s schedulable %v; recovered core capacity %s allocated %s occupied %s schedulable %v (order %s)",
				n, o.Cap, o.Allocated, o.Occupied, o.Schedulable, r.Cap, r.Allocated, r.Occupied, r.Schedulable, label))
		}
	}
	for _, id := range sortedKeys(m.Apps) {
		if m.Apps[id] != "accepted" {
			continue
		}
		o, r := old.Apps[id], rec.Apps[id]
		if r == nil || r.Where != "active" {
			out = append(out, v("C12", "application-missing-after-recovery", "app", "application %s is not active in the recovered core (order %s)", id, label))
			continue
		}
		oa, op, opd := Res{}, Res{}, Res{}
		if o != nil && o.Where == "active" {
			oa, op, opd = o.Allocated, o.Placeholder, o.Pending
		}
		if !oa.Equal(r.Allocated) || !op.Equal(r.Placeholder) || !opd.Equal(r.Pending) {
			out = append(out, v("C12", "application-totals-differ", "app", "application %s: old core allocated %s placeholder %s pending %s; recovered core allocated %s placeholder %s pending %s (order %s)",
				id, oa, op, opd, r.Allocated, r.Placeholder, r.Pending, label))
		}
		if o != nil && o.Where == "active" && o.Queue != r.Queue {
			out = append(out, v("C12", "application-queue-differs", "queue", "application %s was in queue %s, the recovered core has it in %s (order %s)", id, o.Queue, r.Queue, label))
		}
	}
	for _, p := range sortedKeys(old.Queues) {
		o, r := old.Queues[p], rec.Queues[p]
		if r == nil {
			if !o.Allocated.IsZero() || !o.Pending.IsZero() {
				out = append(out, v("C12", "queue-missing-after-recovery", "queue", "queue %s (allocated %s pending %s) does not exist in the recovered core (order %s)", p, o.Allocated, o.Pending, label))
			}
			continue
		}
		if !o.Allocated.Equal(r.Allocated) || !o.Pending.Equal(r.Pending) {
			out = append(out, v("C12", "queue-totals-differ", "queue", "queue %s: old core allocated %s pending %s; recovered core allocated %s pending %s (order %s)", p, o.Allocated, o.Pending, r.Allocated, r.Pending, label))
		}
	}
	users := map[string]bool{}
	for u := range old.Users {
		users[u] = true
	}
	for u := range rec.Users {
		users[u] = true
	}
	us := make([]string, 0, len(users))
	for u := range users {
		us = append(us, u)
	}
	sort.Strings(us)
	for _, u := range us {
		ou, ru := Res{}, Res{}
		if x := old.Users[u]; x != nil {
			ou = x.Queues["root"].Usage
		}
		if x := rec.Users[u]; x != nil {
			ru = x.Queues["root"].Usage
		}
		if !ou.Equal(ru) {
			out = append(out, v("C12", "user-totals-differ", "user", "user %s: old core tracked %s, recovered core tracks %s (order %s)", u, ou, ru, label))
		}
	}
	return out
}

func init() {
	for _, base := range []string{"cap-basic-fair", "gang-Soft", "qmax-dynamic", "ugm-sched-2", "maxapps", "acct-bind"} {
		def := mc.Scenarios[base]
		if def == nil {
			panic("c12: unknown base scenario " + base)
		}
		s := *def.Scn
		s.Name = "recover-" + base
		mc.Register(&mc.ScenarioDef{Scn: &s, Extra: c12Extra})
	}
	registerCheck(&CheckDef{Prop: "C12", Level: "model_checking", Technique: "crash-point enumeration on top of the explicit-state search: every explored state of the real core is a crash point; the shim's knowledge is replayed into a new real core in bounded-many orders and the ledgers of the two cores are compared",
		Quick: []Run{{Scenario: "recover-cap-basic-fair", Depth: 5, MapModes: []int{1}, ExtraDepth: 5}, {Scenario: "recover-gang-Soft", Depth: 5, MapModes: []int{1}, ExtraDepth: 5},
			{Scenario: "recover-qmax-dynamic", Depth: 4, MapModes: []int{1}, ExtraDepth: 4}, {Scenario: "recover-ugm-sched-2", Depth: 4, MapModes: []int{1}, ExtraDepth: 4}, {Scenario: "recover-maxapps", Depth: 4, MapModes: []int{1}, ExtraDepth: 4}, {Scenario: "recover-acct-bind", Depth: 5, MapModes: []int{1}, ExtraDepth: 5}},
		Thorough: []Run{{Scenario: "recover-cap-basic-fair", Depth: 8, MapModes: []int{1}, ExtraDepth: 8}, {Scenario: "recover-gang-Soft", Depth: 8, MapModes: []int{1}, ExtraDepth: 8},
			{Scenario: "recover-qmax-dynamic", Depth: 6, MapModes: []int{1}, ExtraDepth: 6}, {Scenario: "recover-ugm-sched-2", Depth: 6, MapModes: []int{1}, ExtraDepth: 6}, {Scenario: "recover-maxapps", Depth: 6, MapModes: []int{1}, ExtraDepth: 6}, {Scenario: "recover-acct-bind", Depth: 7, MapModes: []int{1}, ExtraDepth: 7}},
		QuickBudget: 150 * time.Second, ThoroughBudget: 12 * time.Minute,
		Assumptions: []string{"crash points are the quiescent points between operations (all outbound messages of the last operation delivered); points with a release awaiting confirmation or a placeholder swap in flight are counted and skipped, because the statement compares totals the shim can know",
			"at most 6 orders of the applications x 6 orders of the allocations per crash point"}})
}
