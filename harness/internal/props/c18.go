package props

import (
	"fmt"
	"math"
	"math/big"
	"sort"
	"strconv"
	"strings"

	"github.com/apache/yunikorn-core/pkg/common/resources"

	"verif/harness/internal/mc"
)

// C18: resource arithmetic and quantity parsing are exact or saturate, never wrap (engine E3: bounded exhaustive
// enumeration of vectors over an extreme-value alphabet against a math/big reference).

var c18Values = []int64{math.MinInt64, math.MinInt64 + 1, -3, -1, 0, 1, 2, 7, math.MaxInt64 - 1, math.MaxInt64}

type vec struct {
	nilRes bool
	m      map[string]int64
}

func (x vec) res() *resources.Resource {
	if x.nilRes {
		return nil
	}
	r := resources.NewResource()
	for k, v := range x.m {
		r.Resources[k] = resources.Quantity(v)
	}
	return r
}

func (x vec) String() string {
	if x.nilRes {
		return "nil"
	}
	ks := make([]string, 0, len(x.m))
	for k := range x.m {
		ks = append(ks, k)
	}
	sort.Strings(ks)
	parts := []string{}
	for _, k := range ks {
		parts = append(parts, fmt.Sprintf("%s:%d", k, x.m[k]))
	}
	return "{" + strings.Join(parts, ",") + "}"
}

func c18Vectors(keys []string) []vec {
	out := []vec{{nilRes: true}}
	var rec func(i int, cur map[string]int64)
	rec = func(i int, cur map[string]int64) {
		if i == len(keys) {
			m := map[string]int64{}
			for k, v := range cur {
				m[k] = v
			}
			out = append(out, vec{m: m})
			return
		}
		rec(i+1, cur) // absent
		for _, v := range c18Values {
			cur[keys[i]] = v
			rec(i+1, cur)
		}
		delete(cur, keys[i])
	}
	rec(0, map[string]int64{})
	return out
}

var (
	bigMin = big.NewInt(math.MinInt64)
	bigMax = big.NewInt(math.MaxInt64)
)

func clampBig(b *big.Int) int64 {
	if b.Cmp(bigMax) > 0 {
		return math.MaxInt64
	}
	if b.Cmp(bigMin) < 0 {
		return math.MinInt64
	}
	return b.Int64()
}

func refAdd(a, b int64) int64 { return clampBig(new(big.Int).Add(big.NewInt(a), big.NewInt(b))) }
func refSub(a, b int64) int64 { return clampBig(new(big.Int).Sub(big.NewInt(a), big.NewInt(b))) }
func refMul(a, b int64) int64 { return clampBig(new(big.Int).Mul(big.NewInt(a), big.NewInt(b))) }

func getQ(r *resources.Resource, k string) (int64, bool) {
	if r == nil {
		return 0, false
	}
	v, ok := r.Resources[k]
	return int64(v), ok
}

func sameAsBefore(r *resources.Resource, x vec) bool {
	if x.nilRes {
		return r == nil
	}
	if r == nil || len(r.Resources) != len(x.m) {
		return false
	}
	for k, v := range x.m {
		if q, ok := r.Resources[k]; !ok || int64(q) != v {
			return false
		}
	}
	return true
}

type c18Case struct {
	Op    string  `json:"op"`
	Left  string  `json:"left"`
	Right string  `json:"right,omitempty"`
	Ratio float64 `json:"ratio,omitempty"`
	IntR  int64   `json:"intRatio,omitempty"`
	Str   string  `json:"str,omitempty"`
}

type c18Run struct {
	evals    int
	distinct map[string]bool
	found    []mc.Found
	fpSeen   map[string]int
	samples  []interface{}
}

func (r *c18Run) fail(rule, fp string, c c18Case, format string, args ...interface{}) {
	r.fpSeen[fp]++
	if r.fpSeen[fp] > 3 {
		return
	}
	r.found = append(r.found, mc.Found{Scenario: "c18", Viol: mc.Violation{Prop: "C18", Rule: rule, FP: "C18:" + rule + ":" + fp, Detail: fmt.Sprintf(format, args...)}, Custom: c})
}

// unionKeys of two vectors.
func unionKeys(a, b vec) []string {
	s := map[string]bool{}
	for k := range a.m {
		s[k] = true
	}
	for k := range b.m {
		s[k] = true
	}
	ks := make([]string, 0, len(s))
	for k := range s {
		ks = append(ks, k)
	}
	sort.Strings(ks)
	return ks
}

func classOf(v int64) string {
	switch {
	case v == math.MinInt64:
		return "MinInt64"
	case v == math.MaxInt64:
		return "MaxInt64"
	case v < 0:
		return "neg"
	case v == 0:
		return "zero"
	default:
		return "pos"
	}
}

func safely(f func()) (p interface{}) {
	defer func() { p = recover() }()
	f()
	return nil
}

func (r *c18Run) binary(a, b vec) {
	la, rb := a.res(), b.res()
	check := func(op string, got *resources.Resource, want func(k string) (int64, bool), keys []string) {
		r.evals++
		for _, k := range keys {
			w, expect := want(k)
			if !expect {
				continue
			}
			g, _ := getQ(got, k)
			nontrivial := w != 0
			if nontrivial {
				r.distinct[op+"|"+a.String()+"|"+b.String()] = true
			}
			if g != w {
				av, _ := a.m[k]
				bv, _ := b.m[k]
				r.fail("arith-"+op, classOf(av)+"_"+classOf(bv), c18Case{Op: op, Left: a.String(), Right: b.String()},
					"%s(%s, %s)[%s] = %d, exact-or-clamped reference %d", op, a, b, k, g, w)
				return
			}
		}
	}
	var out *resources.Resource
	if p := safely(func() { out = resources.Add(la, rb) }); p != nil {
		r.fail("panic", "Add", c18Case{Op: "Add", Left: a.String(), Right: b.String()}, "Add(%s,%s) panicked: %v", a, b, p)
	} else {
		check("Add", out, func(k string) (int64, bool) { return refAdd(a.m[k], b.m[k]), true }, unionKeys(a, b))
	}
	if p := safely(func() { out = resources.Sub(la, rb) }); p != nil {
		r.fail("panic", "Sub", c18Case{Op: "Sub", Left: a.String(), Right: b.String()}, "Sub(%s,%s) panicked: %v", a, b, p)
	} else {
		check("Sub", out, func(k string) (int64, bool) { return refSub(a.m[k], b.m[k]), true }, unionKeys(a, b))
	}
	if p := safely(func() { out = resources.AddOnlyExisting(la, rb) }); p != nil {
		r.fail("panic", "AddOnlyExisting", c18Case{Op: "AddOnlyExisting", Left: a.String(), Right: b.String()}, "AddOnlyExisting(%s,%s) panicked: %v", a, b, p)
	} else if !a.nilRes {
		check("AddOnlyExisting", out, func(k string) (int64, bool) {
			if _, ok := a.m[k]; !ok {
				return 0, false
			}
			return refAdd(a.m[k], b.m[k]), true
		}, unionKeys(a, vec{}))
	}
	if p := safely(func() { out = resources.SubOnlyExisting(la, rb) }); p != nil {
		r.fail("panic", "SubOnlyExisting", c18Case{Op: "SubOnlyExisting", Left: a.String(), Right: b.String()}, "SubOnlyExisting(%s,%s) panicked: %v", a, b, p)
	} else if !a.nilRes {
		check("SubOnlyExisting", out, func(k string) (int64, bool) {
			if _, ok := a.m[k]; !ok {
				return 0, false
			}
			return refSub(a.m[k], b.m[k]), true
		}, unionKeys(a, vec{}))
	}
	if p := safely(func() { out = resources.SubEliminateNegative(la, rb) }); p != nil {
		r.fail("panic", "SubEliminateNegative", c18Case{Op: "SubEliminateNegative", Left: a.String(), Right: b.String()}, "SubEliminateNegative(%s,%s) panicked: %v", a, b, p)
	} else {
		check("SubEliminateNegative", out, func(k string) (int64, bool) {
			if _, ok := b.m[k]; !ok {
				return 0, false // the documentation is silent on types the subtrahend does not define
			}
			w := refSub(a.m[k], b.m[k])
			if w < 0 {
				w = 0
			}
			return w, true
		}, unionKeys(a, b))
	}
	var err error
	if p := safely(func() { out, err = resources.SubErrorNegative(la, rb) }); p != nil {
		r.fail("panic", "SubErrorNegative", c18Case{Op: "SubErrorNegative", Left: a.String(), Right: b.String()}, "SubErrorNegative(%s,%s) panicked: %v", a, b, p)
	} else {
		anyNeg := false
		check("SubErrorNegative", out, func(k string) (int64, bool) {
			if _, ok := b.m[k]; !ok {
				return 0, false
			}
			w := refSub(a.m[k], b.m[k])
			if w < 0 {
				anyNeg = true
				w = 0
			}
			return w, true
		}, unionKeys(a, b))
		if r.fpSeen["err"] == 0 && anyNeg != (err != nil) {
			// only judged when no arithmetic difference was reported for this pair
			exactNeg := false
			for _, k := range unionKeys(a, b) {
				if _, ok := b.m[k]; ok && new(big.Int).Sub(big.NewInt(a.m[k]), big.NewInt(b.m[k])).Sign() < 0 {
					exactNeg = true
				}
			}
			if exactNeg != (err != nil) {
				r.fail("error-flag", "SubErrorNegative", c18Case{Op: "SubErrorNegative", Left: a.String(), Right: b.String()},
					"SubErrorNegative(%s,%s) error=%v but a negative result exists=%v", a, b, err, exactNeg)
			}
		}
	}
	// ---- predicates (component-wise definitions, missing type = 0 or unlimited exactly as documented)
	pred := func(op string, got bool, want bool) {
		r.evals++
		if want {
			r.distinct["p:"+op+"|"+a.String()+"|"+b.String()] = true
		}
		if got != want {
			r.fail("predicate-"+op, fmt.Sprintf("want-%v", want), c18Case{Op: op, Left: a.String(), Right: b.String()}, "%s(%s, %s) = %v, component-wise definition gives %v", op, a, b, got, want)
		}
	}
	var got bool
	// larger.FitIn(smaller): every type of smaller <= max(0, larger[type]) with missing = 0
	if p := safely(func() { got = la.FitIn(rb) }); p != nil {
		r.fail("panic", "FitIn", c18Case{Op: "FitIn", Left: a.String(), Right: b.String()}, "FitIn panicked: %v", p)
	} else {
		want := true
		for k, sv := range b.m {
			lv := a.m[k]
			if lv < 0 {
				lv = 0
			}
			if sv > lv {
				want = false
			}
		}
		pred("FitIn", got, want)
	}
	if p := safely(func() { got = la.FitInMaxUndef(rb) }); p != nil {
		r.fail("panic", "FitInMaxUndef", c18Case{Op: "FitInMaxUndef", Left: a.String(), Right: b.String()}, "FitInMaxUndef panicked: %v", p)
	} else {
		want := true
		for k, sv := range b.m {
			lv, ok := a.m[k]
			if !ok {
				continue // unlimited
			}
			if lv < 0 {
				lv = 0
			}
			if sv > lv {
				want = false
			}
		}
		pred("FitInMaxUndef", got, want)
	}
	if p := safely(func() { got = la.FitInActual(rb) }); p != nil {
		r.fail("panic", "FitInActual", c18Case{Op: "FitInActual", Left: a.String(), Right: b.String()}, "FitInActual panicked: %v", p)
	} else {
		want := true
		for k, sv := range b.m {
			lv, ok := a.m[k]
			if !ok {
				continue
			}
			if sv > lv {
				want = false
			}
		}
		pred("FitInActual", got, want)
	}
	if p := safely(func() { got = resources.StrictlyGreaterThanOrEquals(la, rb) }); p != nil {
		r.fail("panic", "StrictlyGreaterThanOrEquals", c18Case{Op: "StrictlyGreaterThanOrEquals", Left: a.String(), Right: b.String()}, "panicked: %v", p)
	} else {
		want := true
		for _, k := range unionKeys(a, b) {
			if a.m[k] < b.m[k] {
				want = false
			}
		}
		pred("StrictlyGreaterThanOrEquals", got, want)
	}
	if p := safely(func() { got = resources.StrictlyGreaterThan(la, rb) }); p != nil {
		r.fail("panic", "StrictlyGreaterThan", c18Case{Op: "StrictlyGreaterThan", Left: a.String(), Right: b.String()}, "panicked: %v", p)
	} else {
		ge, ne := true, false
		for _, k := range unionKeys(a, b) {
			if a.m[k] < b.m[k] {
				ge = false
			}
			if a.m[k] != b.m[k] {
				ne = true
			}
		}
		pred("StrictlyGreaterThan", got, ge && ne)
	}
	if !a.nilRes && !b.nilRes {
		if p := safely(func() { got = resources.Equals(la, rb) }); p != nil {
			r.fail("panic", "Equals", c18Case{Op: "Equals", Left: a.String(), Right: b.String()}, "panicked: %v", p)
		} else {
			want := true
			for _, k := range unionKeys(a, b) {
				if a.m[k] != b.m[k] {
					want = false
				}
			}
			pred("Equals", got, want)
		}
	}
	for _, fn := range []struct {
		name string
		f    func()
	}{
		{"ComponentWiseMin", func() { resources.ComponentWiseMin(la, rb) }},
		{"ComponentWiseMax", func() { resources.ComponentWiseMax(la, rb) }},
		{"ComponentWiseMinOnlyExisting", func() { resources.ComponentWiseMinOnlyExisting(la, rb) }},
		{"MergeIfNotPresent", func() { resources.MergeIfNotPresent(la, rb) }},
		{"MatchAny", func() { la.MatchAny(rb) }},
		{"EqualsOrEmpty", func() { resources.EqualsOrEmpty(la, rb) }},
		{"DeepEquals", func() { resources.DeepEquals(la, rb) }},
		{"TypeMatching", func() { la.TypeMatching(rb) }},
		{"DominantResourceType", func() { la.DominantResourceType(rb) }},
		{"CalculateAbsUsedCapacity", func() { resources.CalculateAbsUsedCapacity(la, rb) }},
		{"FitInScore", func() { la.FitInScore(rb) }},
		{"StrictlyGreaterThanOnlyExisting", func() { la.StrictlyGreaterThanOnlyExisting(rb) }},
		{"CompUsageRatio", func() { resources.CompUsageRatio(la, rb, rb) }},
		{"GetShares", func() { resources.GetShares(la, rb) }},
	} {
		r.evals++
		if p := safely(fn.f); p != nil {
			shape := "nonempty"
			if !a.nilRes && len(a.m) == 0 {
				shape = "empty-receiver"
			}
			r.fail("panic", fn.name+"-"+shape, c18Case{Op: fn.name, Left: a.String(), Right: b.String()}, "%s(%s, %s) panicked: %v", fn.name, a, b, p)
		}
	}
	// no operation may modify its arguments
	r.evals++
	if !sameAsBefore(la, a) || !sameAsBefore(rb, b) {
		r.fail("argument-modified", "binary", c18Case{Op: "any", Left: a.String(), Right: b.String()}, "an operation modified its arguments: %s / %s became %v / %v", a, b, la, rb)
	}
}

func (r *c18Run) unary(a vec) {
	for _, ratio := range c18Values {
		la := a.res()
		var out *resources.Resource
		c := c18Case{Op: "Multiply", Left: a.String(), IntR: ratio}
		if p := safely(func() { out = resources.Multiply(la, ratio) }); p != nil {
			r.fail("panic", "Multiply", c, "Multiply(%s,%d) panicked: %v", a, ratio, p)
			continue
		}
		r.evals++
		for k, v := range a.m {
			w := refMul(v, ratio)
			g, _ := getQ(out, k)
			if w != 0 {
				r.distinct[fmt.Sprintf("Multiply|%s|%d", a, ratio)] = true
			}
			if g != w {
				r.fail("arith-Multiply", classOf(v)+"_"+classOf(ratio), c, "Multiply(%s, %d)[%s] = %d, exact-or-clamped reference %d", a, ratio, k, g, w)
				break
			}
		}
		if !sameAsBefore(la, a) {
			r.fail("argument-modified", "Multiply", c, "Multiply modified its argument %s", a)
		}
	}
	for _, ratio := range []float64{0, 0.5, -0.5, 1, -1, 2, -2, 1e19, -1e19} {
		la := a.res()
		var out *resources.Resource
		c := c18Case{Op: "MultiplyBy", Left: a.String(), Ratio: ratio}
		if p := safely(func() { out = resources.MultiplyBy(la, ratio) }); p != nil {
			r.fail("panic", "MultiplyBy", c, "MultiplyBy(%s,%g) panicked: %v", a, ratio, p)
			continue
		}
		r.evals++
		for k, v := range a.m {
			// exact product as a rational, then the float rounding tolerance; outside the int64 range the clamp value is required
			exact := new(big.Float).SetPrec(200).Mul(new(big.Float).SetPrec(200).SetInt64(v), new(big.Float).SetPrec(200).SetFloat64(ratio))
			g, _ := getQ(out, k)
			if exact.Sign() != 0 {
				r.distinct[fmt.Sprintf("MultiplyBy|%s|%g", a, ratio)] = true
			}
			ok := false
			maxF := new(big.Float).SetPrec(200).SetInt64(math.MaxInt64)
			minF := new(big.Float).SetPrec(200).SetInt64(math.MinInt64)
			switch {
			case exact.Cmp(maxF) >= 0:
				ok = g == math.MaxInt64
			case exact.Cmp(minF) <= 0:
				ok = g == math.MinInt64
			default:
				// |g - exact| <= |exact| * 2^-50 + 1 (float64 rounding of the operand plus truncation)
				diff := new(big.Float).SetPrec(200).Sub(new(big.Float).SetPrec(200).SetInt64(g), exact)
				diff.Abs(diff)
				tol := new(big.Float).SetPrec(200).Abs(exact)
				tol.Mul(tol, new(big.Float).SetPrec(200).SetFloat64(math.Ldexp(1, -50)))
				tol.Add(tol, big.NewFloat(1))
				ok = diff.Cmp(tol) <= 0
			}
			if !ok {
				ex, _ := exact.Float64()
				r.fail("arith-MultiplyBy", classOf(v)+fmt.Sprintf("_x%g", ratio), c, "MultiplyBy(%s, %g)[%s] = %d, exact product %.6g: neither within float rounding of the exact result nor the clamp value", a, ratio, k, g, ex)
				break
			}
		}
		if !sameAsBefore(la, a) {
			r.fail("argument-modified", "MultiplyBy", c, "MultiplyBy modified its argument %s", a)
		}
	}
	la := a.res()
	for _, fn := range []struct {
		name string
		f    func()
	}{
		{"Clone", func() { la.Clone() }}, {"IsZero", func() { resources.IsZero(la) }}, {"HasNegativeValue", func() { la.HasNegativeValue() }},
		{"StrictlyGreaterThanZero", func() { resources.StrictlyGreaterThanZero(la) }}, {"String", func() { _ = la.String() }},
		{"DAOMap", func() { la.DAOMap() }}, {"ToProto", func() { la.ToProto() }}, {"IsEmpty", func() { la.IsEmpty() }},
	} {
		r.evals++
		if p := safely(fn.f); p != nil {
			r.fail("panic", fn.name, c18Case{Op: fn.name, Left: a.String()}, "%s(%s) panicked: %v", fn.name, a, p)
		}
	}
	r.evals++
	got := resources.IsZero(la)
	want := true
	for _, v := range a.m {
		if v != 0 {
			want = false
		}
	}
	if got != want {
		r.fail("predicate-IsZero", "iszero", c18Case{Op: "IsZero", Left: a.String()}, "IsZero(%s)=%v want %v", a, got, want)
	}
}

// ---- quantities

func refParse(s string, milli bool) (int64, bool) {
	// documented grammar: optional sign? (no), digits, optional suffix: SI k M G T P E, binary Ki Mi Gi Ti Pi Ei, m (milli, vcore only)
	// reference = big integer parse; ok=false when the grammar rejects or the value is not an exact int64
	i := 0
	for i < len(s) && s[i] >= '0' && s[i] <= '9' {
		i++
	}
	if i == 0 {
		return 0, false
	}
	num, _ := new(big.Int).SetString(s[:i], 10)
	suffix := s[i:]
	scale := map[string]*big.Int{"": big.NewInt(1), "k": big.NewInt(1000), "M": big.NewInt(1000000), "G": big.NewInt(1000000000),
		"T": big.NewInt(1000000000000), "P": big.NewInt(1000000000000000), "E": big.NewInt(1000000000000000000),
		"Ki": big.NewInt(1 << 10), "Mi": big.NewInt(1 << 20), "Gi": big.NewInt(1 << 30), "Ti": big.NewInt(1 << 40), "Pi": big.NewInt(1 << 50), "Ei": big.NewInt(1 << 60)}
	if milli {
		if suffix == "m" {
			if num.Cmp(bigMax) > 0 {
				return 0, false
			}
			return num.Int64(), true
		}
		mul, ok := scale[suffix]
		if !ok {
			return 0, false
		}
		v := new(big.Int).Mul(num, mul)
		v.Mul(v, big.NewInt(1000))
		if v.Cmp(bigMax) > 0 {
			return 0, false
		}
		return v.Int64(), true
	}
	mul, ok := scale[suffix]
	if !ok {
		return 0, false
	}
	v := new(big.Int).Mul(num, mul)
	if v.Cmp(bigMax) > 0 {
		return 0, false
	}
	return v.Int64(), true
}

func (r *c18Run) quantities(maxLen int) {
	alphabet := []byte{'0', '1', '9', 'k', 'K', 'M', 'i', 'm', 'E', ' ', '.', '-', '+', 'G'}
	var strs []string
	var rec func(cur []byte)
	rec = func(cur []byte) {
		strs = append(strs, string(cur))
		if len(cur) == maxLen {
			return
		}
		for _, c := range alphabet {
			rec(append(cur, c))
		}
	}
	rec(nil)
	for _, base := range []string{"9223372036854775807", "9223372036854775808", "18446744073709551615", "18446744073709551616", "9223372036854775", "9223372036854776", "9007199254740993", "8", "9", "8388608", "8388607"} {
		for _, suf := range []string{"", "k", "M", "G", "T", "P", "E", "Ki", "Mi", "Gi", "Ti", "Pi", "Ei", "m"} {
			strs = append(strs, base+suf)
		}
	}
	// boundary numbers per suffix: around MaxInt64/scale and MaxInt64/(scale*1000) (the milli conversion of vcores),
	// and around 2^31, 2^32, 2^53 (the width limits an arithmetic short cut is likely to use)
	scales := map[string]*big.Int{"": big.NewInt(1), "k": big.NewInt(1000), "M": big.NewInt(1000000), "G": big.NewInt(1000000000), "T": big.NewInt(1000000000000),
		"P": big.NewInt(1000000000000000), "E": big.NewInt(1000000000000000000), "Ki": big.NewInt(1 << 10), "Mi": big.NewInt(1 << 20), "Gi": big.NewInt(1 << 30),
		"Ti": big.NewInt(1 << 40), "Pi": big.NewInt(1 << 50), "Ei": big.NewInt(1 << 60)}
	maxI := big.NewInt(math.MaxInt64)
	for suf, sc := range scales {
		for _, extra := range []int64{1, 1000} {
			lim := new(big.Int).Div(maxI, new(big.Int).Mul(sc, big.NewInt(extra)))
			for d := int64(-2); d <= 2; d++ {
				n := new(big.Int).Add(lim, big.NewInt(d))
				if n.Sign() >= 0 {
					strs = append(strs, n.String()+suf)
				}
			}
		}
		for _, n := range []int64{1<<31 - 1, 1 << 31, 1<<31 + 1, 1<<32 - 1, 1 << 32, 1<<32 + 1, 1 << 53, 1<<53 + 1, 10000000, 20000000, 99999999} {
			strs = append(strs, strconv.FormatInt(n, 10)+suf)
		}
	}
	sort.Strings(strs)
	for _, s := range strs {
		for _, milli := range []bool{false, true} {
			var q resources.Quantity
			var err error
			name := "ParseQuantity"
			if milli {
				name = "ParseVCore"
			}
			c := c18Case{Op: name, Str: s}
			if p := safely(func() {
				if milli {
					q, err = resources.ParseVCore(s)
				} else {
					q, err = resources.ParseQuantity(s)
				}
			}); p != nil {
				r.fail("panic", name, c, "%s(%q) panicked: %v", name, s, p)
				continue
			}
			r.evals++
			want, ok := refParse(s, milli)
			if ok {
				r.distinct["q:"+name+"|"+s] = true
			}
			switch {
			case ok && err != nil:
				// the reference grammar is the documented one; the implementation may be stricter on forms the documentation
				// does not promise (a rejected well-formed value is an error, never a wrong number): not judged
			case ok && int64(q) != want:
				r.fail("quantity-value", name, c, "%s(%q) = %d, exact value %d", name, s, int64(q), want)
			case !ok && err == nil:
				// accepted although the reference cannot represent it exactly: must still be the exact value of a wider grammar
				if w2, ok2 := refParseLoose(s, milli); !ok2 || w2 != int64(q) {
					r.fail("quantity-accepted", name, c, "%s(%q) = %d without error, but the exact value is not representable / not this", name, s, int64(q))
				}
			}
		}
	}
}

// refParseLoose accepts what a wider but still exact grammar gives: optional leading '+', surrounding spaces,
// decimal fractions that scale to an integer.
func refParseLoose(s string, milli bool) (int64, bool) {
	t := strings.TrimSpace(s)
	t = strings.TrimPrefix(t, "+")
	// split number and suffix
	i := 0
	for i < len(t) && (t[i] >= '0' && t[i] <= '9' || t[i] == '.') {
		i++
	}
	if i == 0 {
		return 0, false
	}
	numStr, suffix := t[:i], strings.TrimSpace(t[i:])
	rat, ok := new(big.Rat).SetString(numStr)
	if !ok {
		return 0, false
	}
	scale := map[string]int64{"": 1, "k": 1000, "M": 1000000, "G": 1000000000, "T": 1000000000000, "P": 1000000000000000, "E": 1000000000000000000,
		"Ki": 1 << 10, "Mi": 1 << 20, "Gi": 1 << 30, "Ti": 1 << 40, "Pi": 1 << 50, "Ei": 1 << 60}
	var mul *big.Rat
	if milli && suffix == "m" {
		mul = big.NewRat(1, 1)
	} else {
		sc, ok := scale[suffix]
		if !ok {
			return 0, false
		}
		mul = big.NewRat(sc, 1)
		if milli {
			mul.Mul(mul, big.NewRat(1000, 1))
		}
	}
	rat.Mul(rat, mul)
	if !rat.IsInt() {
		return 0, false
	}
	if rat.Num().Cmp(bigMax) > 0 || rat.Num().Cmp(bigMin) < 0 {
		return 0, false
	}
	return rat.Num().Int64(), true
}

func checkC18(tier string, seed int64) *CustomResult {
	keys := []string{"a", "b"}
	qlen := 3
	if tier == "thorough" {
		keys = []string{"a", "b", "c"}
		qlen = 4
	}
	run := &c18Run{distinct: map[string]bool{}, fpSeen: map[string]int{}}
	vecs := c18Vectors(keys)
	for _, a := range vecs {
		run.unary(a)
		for _, b := range vecs {
			run.binary(a, b)
		}
	}
	run.quantities(qlen)
	samples := []interface{}{
		c18Case{Op: "Sub", Left: "{a:0}", Right: fmt.Sprintf("{a:%d}", int64(math.MinInt64))},
		c18Case{Op: "Add", Left: vecs[len(vecs)/3].String(), Right: vecs[len(vecs)/2].String()},
		c18Case{Op: "MultiplyBy", Left: vecs[len(vecs)-1].String(), Ratio: 1},
		c18Case{Op: "ParseQuantity", Str: "9223372036854775808"},
	}
	return &CustomResult{
		Coverage: map[string]interface{}{
			"evaluations": run.evals, "distinct_nontrivial": len(run.distinct), "exhaustive": true,
			"rule":    fmt.Sprintf("all %d vectors over keys %v with values {absent,MinInt64,MinInt64+1,-3,-1,0,1,2,7,MaxInt64-1,MaxInt64} and nil: every ordered pair x every exported binary operation/predicate, every vector x Multiply by the same values and MultiplyBy {0,+-0.5,+-1,+-2,+-1e19}; every string of length <= %d over {0,1,9,k,K,M,i,m,E,G,' ','.','-','+'} plus boundary digit strings with every suffix; non-trivial = the reference result is non-zero / the predicate is true / the string is well formed", len(vecs), keys, qlen),
			"samples": samples, "vectors": len(vecs),
		},
		Violations: run.found,
	}
}

func init() {
	registerCheck(&CheckDef{Prop: "C18", Level: "exploration", Technique: "bounded exhaustive input enumeration against a math/big reference", Custom: checkC18})
}
