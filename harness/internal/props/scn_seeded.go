package props

import (
	"verif/harness/internal/mc"
	"verif/harness/internal/world"
)

// Scenarios added after independent, seeded property-breaking changes showed shapes the first scenario set did
// not reach (see DESIGN.md, detection matrix): drained nodes during placeholder replacement, placeholders that
// omit a resource type the real ask requests, asks the RM binds itself while they hold a reservation, same-node
// swaps interrupted by node removal, restarts from Completing under a max-applications limit, state timers that
// lose the race for the application lock.

// gang with drain ops: the real ask cannot go on the placeholder's node (predicate), the other node may be drained
func scnGangDrain(name string) *world.Scenario {
	s := scnGang(name, "Soft")
	s.Alphabet = []string{"SCHEDULE", "ASK", "RELEASE", "CONFIRM", "NODE_DRAIN", "NODE_UNDRAIN", "NODE_REMOVE"}
	s.Asks = s.Asks[:3] // p1 p2 r1
	s.Prefix = append(s.Prefix, op("SCHEDULE"))
	s.MaxConfirmDup = 0
	return s
}

// gang without predicate denials: the swap happens on the placeholder's own node
func scnGangSameNode(name string) *world.Scenario {
	s := scnGang(name, "Soft")
	s.Deny = nil
	s.Alphabet = []string{"SCHEDULE", "ASK", "RELEASE", "CONFIRM", "NODE_REMOVE", "NODE_ADD", "TIMER_PH"}
	s.Asks = s.Asks[:4]
	s.Prefix = append(s.Prefix, op("SCHEDULE"))
	s.MaxConfirmDup = 0
	return s
}

// one placeholder, one real ask, three nodes: the swap starts in the prefix, then nodes come and go (a swap that is
// reversed by a node removal, the real ask bound normally afterwards, its node removed as well)
func scnGangReversed(name string) *world.Scenario {
	s := scnGang(name, "Soft")
	s.Deny = nil
	s.Nodes = []world.NodeSpec{{ID: "n1", Cap: world.MV(3, 3)}, {ID: "n2", Cap: world.MV(3, 3)}, {ID: "n3", Cap: world.MV(3, 3)}}
	s.Asks = []world.AskSpec{s.Asks[0], s.Asks[2]} // p1 and r1
	s.Alphabet = []string{"SCHEDULE", "CONFIRM", "NODE_REMOVE", "NODE_ADD", "RELEASE"}
	s.Prefix = []world.Op{op("NODE_ADD", "n1"), op("APP_ADD", "gapp"), op("ASK", "p1"), op("SCHEDULE"), op("NODE_ADD", "n2"), op("ASK", "r1"), op("SCHEDULE")}
	s.MaxConfirmDup = 0
	return s
}

const confGangSparse = `partitions:
  - name: default
    queues:
      - name: root
        submitacl: "*"
        queues:
          - name: a
            resources:
              max: {memory: 8, gpu: 1}
          - name: b
`

// placeholders that do not define every resource type the real asks of the task group request
func scnGangSparse(name string) *world.Scenario {
	return &world.Scenario{
		Name:    name,
		Configs: []string{confGangSparse},
		Nodes: []world.NodeSpec{
			{ID: "n1", Cap: Res{"memory": 4, "vcore": 4, "gpu": 4}},
			{ID: "n2", Cap: Res{"memory": 3, "vcore": 3, "gpu": 1}},
		},
		Apps: []world.AppSpec{
			{ID: "gapp", Queue: "root.a", User: "u1", Groups: []string{"g1"}, Gang: "Soft", PlaceholderAsk: world.MV(4, 2)},
		},
		Asks: []world.AskSpec{
			{Key: "p1", App: "gapp", Res: world.MV(2, 1), Placeholder: true, TaskGroup: "tg1", Create: 1001},
			{Key: "p2", App: "gapp", Res: world.M(2), Placeholder: true, TaskGroup: "tg1", Create: 1002},
			{Key: "r1", App: "gapp", Res: world.MV(1, 1), TaskGroup: "tg1", Create: 1003},
			{Key: "r4", App: "gapp", Res: Res{"memory": 2, "vcore": 1, "gpu": 2}, TaskGroup: "tg1", Create: 1004}, // a type the placeholder lacks
			{Key: "r5", App: "gapp", Res: world.MV(2, 1), TaskGroup: "tg1", Create: 1005},                         // vcore is missing from placeholder p2
		},
		Deny:     [][2]string{{"r1", "n1"}},
		Alphabet: []string{"SCHEDULE", "ASK", "RELEASE", "CONFIRM", "NODE_REMOVE", "TIMER_PH"},
		Prefix:   []world.Op{op("NODE_ADD", "n1"), op("NODE_ADD", "n2"), op("APP_ADD", "gapp"), op("ASK", "p1"), op("SCHEDULE")},
	}
}

// an ask holding a reservation is bound by the RM itself on another node
func scnReserveBind(name string) *world.Scenario {
	s := scnReserve(name)
	s.Nodes = []world.NodeSpec{{ID: "n1", Cap: world.M(2)}, {ID: "n2", Cap: world.M(2)}, {ID: "n3", Cap: world.M(2)}}
	s.Asks = []world.AskSpec{
		{Key: "a1", App: "app1", Res: world.M(1), Create: 1001},
		{Key: "a2", App: "app1", Res: world.M(1), Create: 1002},
		{Key: "b1", App: "app2", Res: world.M(2), Create: 1003, BindNode: "n3"}, // fits the queue, not a node: reserved
		{Key: "b3", App: "app2", Res: world.M(5), Create: 1005},                 // never fits: keeps the queue pending
	}
	s.Deny = nil
	s.Alphabet = []string{"SCHEDULE", "ASK", "ASK_BIND", "RELEASE", "NODE_REMOVE", "CONFIRM"}
	s.Prefix = []world.Op{op("NODE_ADD", "n1"), op("NODE_ADD", "n2"), op("APP_ADD", "app1"), op("APP_ADD", "app2"), op("ASK", "a1"), op("SCHEDULE"), op("ASK", "a2"), op("SCHEDULE"),
		op("ASK", "b1"), op("SCHEDULE"), op("NODE_ADD", "n3")}
	return s
}

// one application holds two reservations (one per node) when a required-node ask of another application takes one of
// the nodes over
func scnReserveTwo(name string) *world.Scenario {
	s := scnReserve(name)
	s.Nodes = []world.NodeSpec{{ID: "n1", Cap: world.M(3)}, {ID: "n2", Cap: world.M(3)}}
	s.Asks = []world.AskSpec{
		{Key: "x1", App: "app1", Res: world.M(2), Create: 1001},
		{Key: "x2", App: "app1", Res: world.M(2), Create: 1002},
		{Key: "y1", App: "app1", Res: world.M(2), Create: 1003},
		{Key: "y2", App: "app1", Res: world.M(2), Create: 1004},
		{Key: "r1", App: "app2", Res: world.M(2), Create: 1005, RequiredNode: "n1", Prio: 5},
	}
	s.Deny = nil
	s.Alphabet = []string{"SCHEDULE", "ASK", "RELEASE", "CONFIRM", "NODE_REMOVE"}
	s.Prefix = []world.Op{op("NODE_ADD", "n1"), op("NODE_ADD", "n2"), op("APP_ADD", "app1"), op("APP_ADD", "app2"), op("ASK", "x1"), op("SCHEDULE"), op("ASK", "x2"), op("SCHEDULE"),
		op("ASK", "y1"), op("ASK", "y2")}
	return s
}

// restart from Completing in a leaf with max applications 1 below a parent with max applications 2
func scnMaxAppsRestart(name string) *world.Scenario {
	s := scnMaxApps(name, confMaxAppsLeaf, appsMaxApps)
	s.Asks = []world.AskSpec{
		{Key: "a1", App: "app1", Res: world.M(1), Create: 1001},
		{Key: "a2", App: "app1", Res: world.M(1), Create: 1002},
		{Key: "b1", App: "app2", Res: world.M(1), Create: 1003},
		{Key: "c1", App: "app3", Res: world.M(1), Create: 1004},
	}
	s.Alphabet = []string{"SCHEDULE", "ASK", "RELEASE", "APP_ADD", "TIMER_STATE"}
	s.Prefix = []world.Op{op("NODE_ADD", "n1"), op("APP_ADD", "app1"), op("ASK", "a1"), op("SCHEDULE"), op("RELEASE", "a1"),
		op("APP_ADD", "app2"), op("ASK", "b1"), op("SCHEDULE"), op("ASK", "a2")}
	return s
}

// life cycle with state timers whose callback runs late (after the application moved on)
func scnLifecycleLate(name string) *world.Scenario {
	s := scnLifecycle(name)
	s.Apps = s.Apps[:1]
	s.Asks = s.Asks[:2]
	s.Alphabet = []string{"SCHEDULE", "ASK", "RELEASE", "TIMER_STATE", "TIMER_STATE_EXPIRE", "TIMER_STATE_LATE", "APP_REMOVE"}
	s.Prefix = append(s.Prefix, op("ASK", "a1"), op("SCHEDULE"))
	return s
}

// the RM itself places an ask the core already knows, and changes its size in the same update (shrink a1, grow a2);
// sixth seeding round (C03-6, C12-6)
func scnAcctBind(name string) *world.Scenario {
	s := scnCapBasic(name, "fair")
	s.Nodes = []world.NodeSpec{{ID: "n1", Cap: world.MV(4, 4)}, {ID: "n2", Cap: world.MV(3, 1)}}
	s.Asks = []world.AskSpec{
		{Key: "a1", App: "app1", Res: world.M(2), Create: 1001, Resize: world.M(1), BindNode: "n1", BindResize: true},
		{Key: "a2", App: "app1", Res: world.MV(1, 1), Create: 1002, Resize: world.MV(2, 1), BindNode: "n1", BindResize: true},
		{Key: "a3", App: "app1", Res: world.M(1), Create: 1003},
	}
	s.Foreign = nil
	s.Deny = [][2]string{{"a1", "n1"}, {"a1", "n2"}, {"a2", "n2"}} // a1 is only ever placed by the RM
	s.Alphabet = []string{"SCHEDULE", "ASK", "ASK_BIND", "ASK_RESIZE", "RELEASE", "NODE_ADD", "NODE_REMOVE", "APP_REMOVE"}
	s.Prefix = []world.Op{op("NODE_ADD", "n1"), op("APP_ADD", "app1")}
	return s
}

// a leaf at its maximum, one of its allocations is marked as the victim of a required-node ask from another queue and
// not released yet, a new ask arrives in the leaf (sixth seeding round, C02-6)
func scnQMaxReqNode(name string) *world.Scenario {
	conf := `partitions:
  - name: default
    queues:
      - name: root
        submitacl: "*"
        queues:
          - name: a
            resources:
              max: {memory: 4}
          - name: b
`
	return &world.Scenario{
		Name:    name,
		Configs: []string{conf},
		Reserve: true,
		Nodes:   []world.NodeSpec{{ID: "n1", Cap: world.M(2)}, {ID: "n2", Cap: world.M(3)}},
		Apps: []world.AppSpec{
			{ID: "app1", Queue: "root.a", User: "u1", Groups: []string{"g1"}},
			{ID: "app2", Queue: "root.b", User: "u2", Groups: []string{"g2"}},
		},
		Asks: []world.AskSpec{
			{Key: "a1", App: "app1", Res: world.M(2), Create: 1001},
			{Key: "a2", App: "app1", Res: world.M(2), Create: 1002},
			{Key: "a3", App: "app1", Res: world.M(1), Create: 1003},
			{Key: "r1", App: "app2", Res: world.M(1), Create: 1004, RequiredNode: "n1", Prio: 5},
		},
		Deny:     [][2]string{{"a1", "n2"}, {"a2", "n1"}},
		Alphabet: []string{"SCHEDULE", "ASK", "RELEASE", "CONFIRM"},
		Prefix:   []world.Op{op("NODE_ADD", "n1"), op("NODE_ADD", "n2"), op("APP_ADD", "app1"), op("APP_ADD", "app2"), op("ASK", "a1"), op("SCHEDULE"), op("ASK", "a2"), op("SCHEDULE")},
	}
}

// two applications that never ran hold a reservation each, in two leaves below a parent that admits one application;
// the nodes free up (sixth seeding round, C11-6)
func scnMaxAppsReserve(name string) *world.Scenario {
	conf := `partitions:
  - name: default
    queues:
      - name: root
        submitacl: "*"
        queues:
          - name: p
            parent: true
            maxapplications: 1
            queues:
              - name: a
                maxapplications: 1
              - name: b
                maxapplications: 1
          - name: other
`
	return &world.Scenario{
		Name:    name,
		Configs: []string{conf},
		Reserve: true,
		Nodes:   []world.NodeSpec{{ID: "n1", Cap: world.M(2)}, {ID: "n2", Cap: world.M(2)}},
		Apps: []world.AppSpec{
			{ID: "app1", Queue: "root.p.a", User: "u1", Groups: []string{"g1"}},
			{ID: "app2", Queue: "root.p.b", User: "u2", Groups: []string{"g2"}},
			{ID: "app3", Queue: "root.other", User: "u3", Groups: []string{"g3"}},
		},
		Asks: []world.AskSpec{
			{Key: "f1", App: "app3", Res: world.M(2), Create: 1001},
			{Key: "f2", App: "app3", Res: world.M(2), Create: 1002},
			{Key: "a1", App: "app1", Res: world.M(2), Create: 1003},
			{Key: "b1", App: "app2", Res: world.M(2), Create: 1004},
		},
		Alphabet: []string{"SCHEDULE", "ASK", "RELEASE", "APP_REMOVE"},
		Prefix: []world.Op{op("NODE_ADD", "n1"), op("NODE_ADD", "n2"), op("APP_ADD", "app1"), op("APP_ADD", "app2"), op("APP_ADD", "app3"), op("ASK", "f1"), op("SCHEDULE"), op("ASK", "f2"), op("SCHEDULE"),
			op("ASK", "a1"), op("SCHEDULE"), op("ASK", "b1"), op("SCHEDULE"), op("SCHEDULE")},
	}
}

func init() {
	mc.Register(&mc.ScenarioDef{Scn: scnQMaxReqNode("qmax-reqnode"), Monitors: []mc.Monitor{monC02()}})
	mc.Register(&mc.ScenarioDef{Scn: scnMaxAppsReserve("maxapps-reserve"), Monitors: []mc.Monitor{monC11()}})
	mc.Register(&mc.ScenarioDef{Scn: scnAcctBind("acct-bind"), Monitors: []mc.Monitor{monC03()}})
	mc.Register(&mc.ScenarioDef{Scn: scnGangDrain("gang-cap-drain"), Monitors: []mc.Monitor{monC01()}})
	mc.Register(&mc.ScenarioDef{Scn: scnGangSameNode("gang-si-same"), Monitors: []mc.Monitor{monC04()}})
	mc.Register(&mc.ScenarioDef{Scn: scnGangReversed("gang-si-reversed"), Monitors: []mc.Monitor{monC04()}})
	mc.Register(&mc.ScenarioDef{Scn: scnGangSameNode("gang-acct-same"), Monitors: []mc.Monitor{monC03()}})
	mc.Register(&mc.ScenarioDef{Scn: scnGangSparse("gang-sparse-qmax"), Monitors: []mc.Monitor{monC02()}})
	mc.Register(&mc.ScenarioDef{Scn: scnGangSparse("gang-sparse"), Monitors: []mc.Monitor{monC06()}})
	mc.Register(&mc.ScenarioDef{Scn: scnGangSparse("gang-sparse-cap"), Monitors: []mc.Monitor{monC01()}})
	mc.Register(&mc.ScenarioDef{Scn: scnReserveBind("reserve-bind-si"), Monitors: []mc.Monitor{monC04()}})
	mc.Register(&mc.ScenarioDef{Scn: scnReserveBind("reserve-bind"), Monitors: []mc.Monitor{monC09()}})
	mc.Register(&mc.ScenarioDef{Scn: scnReserveTwo("reserve-two"), Monitors: []mc.Monitor{monC09()}})
	mc.Register(&mc.ScenarioDef{Scn: scnMaxAppsRestart("maxapps-restart"), Monitors: []mc.Monitor{monC11()}})
	mc.Register(&mc.ScenarioDef{Scn: scnLifecycleLate("lifecycle-late"), Monitors: []mc.Monitor{monC10()}})
}
