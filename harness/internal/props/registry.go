package props

import (
	"encoding/json"
	"fmt"
	"time"

	"verif/harness/internal/mc"
)

// Run is one bounded exploration of one scenario.
type Run struct {
	Scenario   string
	Depth      int
	MaxStates  int
	MapModes   []int
	ExtraDepth int
}

// CheckDef describes how one property is decided.
type CheckDef struct {
	Prop           string
	Level          string
	Technique      string
	Quick          []Run
	Thorough       []Run
	QuickBudget    time.Duration
	ThoroughBudget time.Duration
	// Custom, when set, replaces the E1 runs (E3 / E2 checks).
	Custom      func(tier string, seed int64) *CustomResult
	Assumptions []string
	// Also, when set on a check that is made of explicit-state runs, is executed after them (a second engine deciding
	// another part of the same property); its findings, harness errors and coverage are merged into the result.
	Also func(tier string) *CustomResult
	// Replay, when set, re-executes one stored counterexample of a Custom check directly (returns 1 when reproduced).
	Replay func(fp string, raw interface{}) int
}

// CustomResult is what a non-E1 check reports.
type CustomResult struct {
	Coverage   map[string]interface{}
	Violations []mc.Found
	Harness    []string
}

var Checks = map[string]*CheckDef{}

func registerCheck(c *CheckDef) {
	if _, dup := Checks[c.Prop]; dup {
		panic("duplicate check " + c.Prop)
	}
	Checks[c.Prop] = c
}

// ReplayCustom re-runs the (deterministic) enumeration of a non-E1 check and looks for the stored counterexample.
func ReplayCustom(prop, fp, tier string, raw interface{}) int {
	def := Checks[prop]
	if def != nil && def.Replay != nil {
		return def.Replay(fp, raw)
	}
	if def == nil || def.Custom == nil {
		fmt.Println("no custom check for", prop)
		return 2
	}
	want, _ := json.Marshal(raw)
	cr := def.Custom(tier, 0)
	for _, f := range cr.Violations {
		got, _ := json.Marshal(f.Custom)
		if f.Viol.FP == fp && string(got) == string(want) {
			fmt.Printf("violation: %s %s: %s\ninput: %s\nREPRODUCED\n", f.Viol.Prop, f.Viol.Rule, f.Viol.Detail, got)
			return 1
		}
	}
	for _, f := range cr.Violations {
		if f.Viol.FP == fp {
			got, _ := json.Marshal(f.Custom)
			fmt.Printf("violation with the same fingerprint: %s %s: %s\ninput: %s\nREPRODUCED (same class)\n", f.Viol.Prop, f.Viol.Rule, f.Viol.Detail, got)
			return 1
		}
	}
	fmt.Println("not reproduced")
	return 0
}
