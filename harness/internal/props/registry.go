package props

import (
	"time"

	"verif/harness/internal/mc"
)

// Run is one bounded exploration of one scenario.
type Run struct {
	Scenario   string
	Depth      int
	MaxStates  int
	MapModes   []int
	ExtraDepth int
}

// CheckDef describes how one property is decided.
type CheckDef struct {
	Prop      string
	Level     string
	Technique string
	Quick     []Run
	Thorough  []Run
	QuickBudget    time.Duration
	ThoroughBudget time.Duration
	// Custom, when set, replaces the E1 runs (E3 / E2 checks).
	Custom func(tier string, seed int64) *CustomResult
	Assumptions []string
}

// CustomResult is what a non-E1 check reports.
type CustomResult struct {
	Coverage   map[string]interface{}
	Violations []mc.Found
	Harness    []string
}

var Checks = map[string]*CheckDef{}

func registerCheck(c *CheckDef) {
	if _, dup := Checks[c.Prop]; dup {
		panic("duplicate check " + c.Prop)
	}
	Checks[c.Prop] = c
}

// ReplayCustom re-runs a stored counterexample of a non-E1 check.
var customReplays = map[string]func(raw interface{}) int{}

func ReplayCustom(prop string, raw interface{}) int {
	if f := customReplays[prop]; f != nil {
		return f(raw)
	}
	return 2
}
