package props

import (
	"fmt"
	"strings"
	"sync"
	"time"

	"verif/harness/internal/mc"
	"verif/harness/internal/world"
)

// C16: configuration reload is atomic and preserves running state (engine E1). CONFIG ops (to every document of the
// scenario's set, valid and invalid) are explored from every state of a running partition. Oracle for the static
// part: a FRESH scheduler loaded from the same document (differential, no hand-written expectation).

type c16Fresh struct {
	queues map[string]*world.QueueSnap
	part   world.PartSnap
	err    string
}

var (
	c16Mu    sync.Mutex
	c16Cache = map[string]*c16Fresh{}
)

// c16Prepare loads every document of the scenario into a fresh scheduler once per process, BEFORE a world of the
// scenario exists (a fresh world resets the process-global singletons).
func c16Prepare(scn *world.Scenario) {
	c16Mu.Lock()
	defer c16Mu.Unlock()
	for _, doc := range scn.Configs {
		if _, ok := c16Cache[doc]; ok {
			continue
		}
		f := &c16Fresh{}
		w, err := world.New(&world.Scenario{Name: "c16-fresh", Configs: []string{doc}})
		if err != nil {
			f.err = err.Error()
		} else {
			s := w.Snapshot()
			f.queues = s.Queues
			f.part = s.Part
		}
		if w != nil {
			w.Close()
		}
		c16Cache[doc] = f
	}
}

func staticOf(q *world.QueueSnap) string {
	max := q.Max
	if q.Path == "root" {
		max = nil // the root maximum is the registered cluster size, not a configured value
	}
	return world.J(map[string]interface{}{"max": max, "guaranteed": q.Guaranteed, "maxApps": q.MaxApps, "props": q.Props, "sort": q.SortPolicy, "prioSort": q.PrioSort,
		"preemptOn": q.PreemptOn, "preemptFence": q.PreemptFence, "prioFence": q.PrioFence, "prioOffset": q.PrioOffset, "preemptDelay": q.PreemptDelay, "quotaDelay": q.QuotaDelay,
		"template": q.Template, "managed": q.Managed})
}

func dynOf(q *world.QueueSnap) string {
	return world.J(map[string]interface{}{"alloc": q.Allocated, "pending": q.Pending, "running": q.Running, "allocAcc": q.AllocAcc, "reserved": q.Reserved, "apps": q.Apps, "preempting": q.Preempting})
}

func monC16() mc.Monitor {
	return funcMonitor{"C16", func(scn *world.Scenario, pre *world.Snap, st *world.Step, post *world.Snap, counts map[string]int) []mc.Violation {
		var out []mc.Violation
		if post == nil {
			return []mc.Violation{v("C16", "no-crash", st.Op.K, "op %s crashed/hung: %s%s", st.Op, firstLine(st.Panic), firstLine(st.Hang))}
		}
		if post.Gone || pre.Gone {
			return nil
		}
		// ---- queues only disappear through the cleaner, and only when drained/dynamic and empty
		for _, p := range sortedKeys(pre.Queues) {
			if post.Queues[p] != nil {
				continue
			}
			q := pre.Queues[p]
			counts["C16.queue-removal"]++
			switch {
			case st.Op.K != "CLEAN_QUEUES":
				out = append(out, v("C16", "queue-removed-outside-cleanup", st.Op.K, "queue %s disappeared on %s", p, st.Op))
			case q.State != "Draining" && q.Managed:
				out = append(out, v("C16", "active-configured-queue-removed", "state", "configured queue %s was removed while %s", p, q.State))
			case len(q.Apps) > 0 || !q.Allocated.IsZero() || !q.Pending.IsZero():
				out = append(out, v("C16", "non-empty-queue-removed", "apps", "queue %s was removed with applications %v allocated %s pending %s", p, q.Apps, q.Allocated, q.Pending))
			}
		}
		// ---- a draining leaf takes no new applications
		if st.Op.K == "APP_ADD" {
			if spec := scn.App(st.Op.A); spec != nil {
				if q := pre.Queues[strings.ToLower(spec.Queue)]; q != nil && q.State == "Draining" {
					counts["C16.draining-refuses"]++
					if a := post.Apps[st.Op.A]; a != nil && a.Where == "active" && a.Queue == q.Path {
						out = append(out, v("C16", "draining-queue-accepts-application", "draining", "application %s was accepted into the draining queue %s", st.Op.A, q.Path))
					}
				}
			}
		}
		if st.Op.K != "CONFIG" {
			return out
		}
		doc := scn.Configs[st.Op.N]
		if strings.HasPrefix(st.Result, "rejected") {
			counts["C16.rejected-reload"]++
			if pre.Canon() != post.Canon() {
				out = append(out, v("C16", "rejected-reload-changed-state", diffPart(pre, post), "reload to document #%d was rejected (%s) but the observable state changed in: %s", st.Op.N, st.Result, diffPart(pre, post)))
			}
			return out
		}
		if st.Result != "ok" {
			return out
		}
		counts["C16.accepted-reload"]++
		// ---- running state is preserved
		if world.J(pre.Apps) != world.J(post.Apps) {
			out = append(out, v("C16", "reload-changed-applications", "apps", "accepted reload to document #%d changed applications/allocations/asks/reservations: %s", st.Op.N, firstDiff(world.J(pre.Apps), world.J(post.Apps))))
		}
		if world.J(pre.Nodes) != world.J(post.Nodes) {
			out = append(out, v("C16", "reload-changed-nodes", "nodes", "accepted reload to document #%d changed the nodes: %s", st.Op.N, firstDiff(world.J(pre.Nodes), world.J(post.Nodes))))
		}
		for _, p := range sortedKeys(pre.Queues) {
			q, nq := pre.Queues[p], post.Queues[p]
			if nq == nil {
				continue // reported above
			}
			if dynOf(q) != dynOf(nq) {
				out = append(out, v("C16", "reload-changed-queue-usage", "usage", "accepted reload to document #%d changed the running state of queue %s: %s -> %s", st.Op.N, p, dynOf(q), dynOf(nq)))
			}
		}
		// ---- a pending quota change preemption keeps its start time when the reload changes neither the maximum nor the
		// delay of the queue (the class of the start time is part of the state: due / within 100 minutes / later)
		for _, p := range sortedKeys(pre.Queues) {
			q, nq := pre.Queues[p], post.Queues[p]
			if nq == nil || q.QPWhen == "" || world.J(q.Max) != world.J(nq.Max) || q.QuotaDelay != nq.QuotaDelay {
				continue
			}
			counts["C16.quota-preemption-start-kept"]++
			if nq.QPWhen != q.QPWhen && nq.QPWhen != "" { // cleared is fine: the usage is no longer above the maximum
				out = append(out, v("C16", "reload-moved-quota-preemption-start", q.QPWhen+"->"+nq.QPWhen, "accepted reload to document #%d changed neither the maximum nor the quota preemption delay (%s) of queue %s, but its pending quota preemption moved from '%s' to '%s'", st.Op.N, q.QuotaDelay, p, q.QPWhen, nq.QPWhen))
			}
		}
		// ---- the new limits and properties apply to every queue the document defines (differential: fresh load)
		c16Mu.Lock()
		fresh := c16Cache[doc]
		c16Mu.Unlock()
		if fresh == nil || fresh.err != "" {
			return out
		}
		for _, p := range sortedKeys(fresh.queues) {
			fq, nq := fresh.queues[p], post.Queues[p]
			counts["C16.configured-queue-vs-fresh"]++
			if nq == nil {
				out = append(out, v("C16", "configured-queue-missing", "missing", "queue %s is defined by document #%d but does not exist after the accepted reload", p, st.Op.N))
				continue
			}
			if staticOf(fq) != staticOf(nq) {
				was := "existing"
				if pre.Queues[p] == nil {
					was = "new"
				}
				out = append(out, v("C16", "configured-queue-differs-from-fresh-load", was, "queue %s (%s) after the accepted reload to document #%d: %s; a fresh scheduler loaded from the same document has: %s", p, was, st.Op.N, staticOf(nq), staticOf(fq)))
			}
			if nq.State != "Active" {
				kind := "was-" + nq.State
				if pq := pre.Queues[p]; pq != nil {
					kind = "was-" + pq.State
				}
				out = append(out, v("C16", "configured-queue-not-active", kind, "queue %s is defined by document #%d but is %s after the accepted reload (%s)", p, st.Op.N, nq.State, kind))
			}
		}
		if fresh.part.NodeSort != post.Part.NodeSort || fresh.part.Preemption != post.Part.Preemption || fresh.part.QuotaPreempt != post.Part.QuotaPreempt || fresh.part.Rules != post.Part.Rules {
			out = append(out, v("C16", "partition-settings-differ-from-fresh-load", "partition", "partition settings after the accepted reload to document #%d: sort %s preemption %v quota %v rules %s; fresh load: sort %s preemption %v quota %v rules %s",
				st.Op.N, post.Part.NodeSort, post.Part.Preemption, post.Part.QuotaPreempt, post.Part.Rules, fresh.part.NodeSort, fresh.part.Preemption, fresh.part.QuotaPreempt, fresh.part.Rules))
		}
		// ---- configured queues missing from the document are draining
		for _, p := range sortedKeys(pre.Queues) {
			q, nq := pre.Queues[p], post.Queues[p]
			if nq == nil || fresh.queues[p] != nil {
				continue
			}
			counts["C16.missing-queue-draining"]++
			if q.Managed && nq.State != "Draining" {
				out = append(out, v("C16", "missing-queue-not-draining", "state", "configured queue %s is not in document #%d but is %s after the accepted reload", p, st.Op.N, nq.State))
			}
			if !q.Managed && (nq.State != q.State || staticOf(q) != staticOf(nq)) {
				// a dynamic queue is not touched by a reload unless its parent's template/properties changed: only the state is checked
				if nq.State != q.State {
					out = append(out, v("C16", "dynamic-queue-state-changed", "state", "dynamic queue %s went from %s to %s on the accepted reload to document #%d", p, q.State, nq.State, st.Op.N))
				}
			}
		}
		return out
	}}
}

func diffPart(a, b *world.Snap) string {
	var parts []string
	if world.J(a.Part) != world.J(b.Part) {
		parts = append(parts, "partition")
	}
	if world.J(a.Queues) != world.J(b.Queues) {
		parts = append(parts, "queues")
	}
	if world.J(a.Apps) != world.J(b.Apps) {
		parts = append(parts, "applications")
	}
	if world.J(a.Nodes) != world.J(b.Nodes) {
		parts = append(parts, "nodes")
	}
	if world.J(a.Users) != world.J(b.Users) || world.J(a.Groups) != world.J(b.Groups) {
		parts = append(parts, "user-group-limits")
	}
	return strings.Join(parts, "+")
}

func firstDiff(a, b string) string {
	i := 0
	for i < len(a) && i < len(b) && a[i] == b[i] {
		i++
	}
	lo := i - 60
	if lo < 0 {
		lo = 0
	}
	hi := func(s string) int {
		if i+80 < len(s) {
			return i + 80
		}
		return len(s)
	}
	return fmt.Sprintf("...%s  ->  ...%s", a[lo:hi(a)], b[lo:hi(b)])
}

func c16Doc(rules, extra, queues string) string {
	return "partitions:\n  - name: default\n" + extra + "    placementrules:\n" + rules + "    queues:\n      - name: root\n        submitacl: \"*\"\n        queues:\n" + queues
}

const c16RulesBase = "      - name: provided\n        create: true\n"

var c16Docs = []string{
	// 0 base
	c16Doc(c16RulesBase, "", `          - name: A
            resources:
              max: {memory: 4}
          - name: p
            parent: true
            properties:
              application.sort.policy: fair
              priority.offset: "3"
            childtemplate:
              maxapplications: 2
            queues:
              - name: x
              - name: y
                resources:
                  guaranteed: {memory: 1}
`),
	// 1 maxima / guaranteed changed
	c16Doc(c16RulesBase, "", `          - name: A
            resources:
              max: {memory: 2}
          - name: p
            parent: true
            resources:
              max: {memory: 6}
            properties:
              application.sort.policy: fair
              priority.offset: "3"
            childtemplate:
              maxapplications: 2
            queues:
              - name: x
              - name: y
                resources:
                  guaranteed: {memory: 2}
`),
	// 2 properties changed (inherited ones included)
	c16Doc(c16RulesBase, "", `          - name: A
            resources:
              max: {memory: 4}
            properties:
              preemption.policy: disabled
          - name: p
            parent: true
            properties:
              application.sort.policy: fifo
              application.sort.priority: disabled
              preemption.delay: 10s
              priority.policy: fence
            childtemplate:
              maxapplications: 2
            queues:
              - name: x
                properties:
                  application.sort.priority: enabled
              - name: y
                resources:
                  guaranteed: {memory: 1}
`),
	// 3 queue a removed
	c16Doc(c16RulesBase, "", `          - name: p
            parent: true
            properties:
              application.sort.policy: fair
              priority.offset: "3"
            childtemplate:
              maxapplications: 2
            queues:
              - name: x
              - name: y
                resources:
                  guaranteed: {memory: 1}
`),
	// 4 x removed below p, z added
	c16Doc(c16RulesBase, "", `          - name: A
            resources:
              max: {memory: 4}
          - name: p
            parent: true
            properties:
              application.sort.policy: fair
              priority.offset: "3"
            childtemplate:
              maxapplications: 2
            queues:
              - name: z
                maxapplications: 1
              - name: y
                resources:
                  guaranteed: {memory: 1}
`),
	// 5 max applications everywhere, template changed
	c16Doc(c16RulesBase, "", `          - name: A
            maxapplications: 1
            resources:
              max: {memory: 4}
          - name: p
            parent: true
            maxapplications: 3
            properties:
              application.sort.policy: fair
              priority.offset: "3"
            childtemplate:
              maxapplications: 1
              properties:
                application.sort.policy: fifo
            queues:
              - name: x
                maxapplications: 2
              - name: y
                maxapplications: 1
                resources:
                  guaranteed: {memory: 1}
`),
	// 6 invalid: duplicate child
	c16Doc(c16RulesBase, "", `          - name: A
          - name: p
            parent: true
            queues:
              - name: x
              - name: X
`),
	// 7 passes validation, refused by the placement manager
	c16Doc("      - name: unknown\n", "", `          - name: A
            resources:
              max: {memory: 1}
          - name: p
            parent: true
            queues:
              - name: x
`),
	// 8 placement rules, node sort policy and preemption flags changed
	c16Doc("      - name: fixed\n        value: root.a\n      - name: provided\n        create: true\n", "    nodesortpolicy:\n      type: binpacking\n    preemption:\n      enabled: false\n", `          - name: A
            resources:
              max: {memory: 4}
          - name: p
            parent: true
            properties:
              application.sort.policy: fair
              priority.offset: "3"
            childtemplate:
              maxapplications: 2
            queues:
              - name: x
              - name: y
                resources:
                  guaranteed: {memory: 1}
`),
	// 9 leaf a becomes a parent
	c16Doc(c16RulesBase, "", `          - name: A
            parent: true
            resources:
              max: {memory: 4}
            queues:
              - name: a1
          - name: p
            parent: true
            properties:
              application.sort.policy: fair
              priority.offset: "3"
            childtemplate:
              maxapplications: 2
            queues:
              - name: x
              - name: y
                resources:
                  guaranteed: {memory: 1}
`),
}

func scnReload(name string, prefix []world.Op) *world.Scenario {
	return &world.Scenario{
		Name:    name,
		Configs: c16Docs,
		Nodes:   []world.NodeSpec{{ID: "n1", Cap: world.M(6)}},
		Apps: []world.AppSpec{
			{ID: "app1", Queue: "root.a", User: "u1", Groups: []string{"g1"}},
			{ID: "app2", Queue: "root.p.x", User: "u2", Groups: []string{"g2"}},
			{ID: "app3", Queue: "root.p.dyn", User: "u1", Groups: []string{"g1"}},
		},
		Asks: []world.AskSpec{
			{Key: "a1", App: "app1", Res: world.M(1), Create: 1001},
			{Key: "a2", App: "app1", Res: world.M(2), Create: 1002},
			{Key: "b1", App: "app2", Res: world.M(2), Create: 1003},
			{Key: "c1", App: "app3", Res: world.M(1), Create: 1004},
		},
		Alphabet: []string{"SCHEDULE", "ASK", "RELEASE", "APP_ADD", "APP_REMOVE", "CONFIG", "CLEAN_QUEUES"},
		Prefix:   prefix,
		Reserve:  true,
	}
}

func init() {
	mc.Register(&mc.ScenarioDef{Scn: scnReload("reload-1app", []world.Op{op("NODE_ADD", "n1"), op("APP_ADD", "app1"), op("ASK", "a1"), op("SCHEDULE")}), Monitors: []mc.Monitor{monC16()}, Prepare: c16Prepare})
	mc.Register(&mc.ScenarioDef{Scn: scnReload("reload-3apps", []world.Op{op("NODE_ADD", "n1"), op("APP_ADD", "app1"), op("ASK", "a1"), op("SCHEDULE"), op("APP_ADD", "app2"), op("ASK", "b1"), op("SCHEDULE"),
		op("APP_ADD", "app3"), op("ASK", "c1"), op("SCHEDULE"), op("ASK", "a2")}), Monitors: []mc.Monitor{monC16()}, Prepare: c16Prepare})
	// a queue above a lowered maximum with a quota preemption delay of hours, and further reloads that do not touch it
	qd := scnPreemptG("reload-quota-delay", true, 1, 4, "1h", "3h")
	qd.Configs = append(qd.Configs, strings.Replace(qd.Configs[1], "          - name: b\n", "          - name: c\n          - name: b\n", 1))
	qd.Alphabet = []string{"SCHEDULE", "RELEASE", "CONFIG", "QUOTA_PREEMPT"}
	mc.Register(&mc.ScenarioDef{Scn: qd, Monitors: []mc.Monitor{monC16()}, Prepare: c16Prepare})
	registerCheck(&CheckDef{Prop: "C16", Level: "model_checking", Technique: tE1,
		Quick:       []Run{{Scenario: "reload-1app", Depth: 5, MapModes: []int{1}}, {Scenario: "reload-3apps", Depth: 4, MapModes: []int{1}}, {Scenario: "reload-quota-delay", Depth: 5, MapModes: []int{1}}},
		Thorough:    []Run{{Scenario: "reload-1app", Depth: 7, MapModes: []int{1, 2}}, {Scenario: "reload-3apps", Depth: 6, MapModes: []int{1, 2}}, {Scenario: "reload-quota-delay", Depth: 7, MapModes: []int{1}}},
		QuickBudget: 150 * time.Second, ThoroughBudget: 12 * time.Minute,
		Assumptions: []string{"static queue fields are compared with a fresh scheduler loaded from the same document (differential oracle); the leaf/parent flag of a converted queue is not compared", "single partition"}})
}
