package props

import (
	"bytes"
	"encoding/json"
	"fmt"
	"os"
	"os/exec"
	"runtime"
	"runtime/pprof"
	"sync"
	"time"
)

// ShardFuncs are check bodies that need the real ClusterContext (process-global singletons): they are run in worker
// PROCESSES, each enumerating the cases whose index is congruent to shard modulo n.
var ShardFuncs = map[string]func(tier string, shard, n int) *CustomResult{}

// ShardMain is the body of "vpx shard <name> <tier> <shard> <n>".
func ShardMain(name, tier string, shard, n int) int {
	f := ShardFuncs[name]
	if f == nil {
		fmt.Fprintln(os.Stderr, "unknown shard function", name)
		return 2
	}
	if path := os.Getenv("VERIF_HEAPPROF"); path != "" {
		// debugging aid: heap profile after 40 s
		go func() {
			time.Sleep(40 * time.Second)
			runtime.GC()
			if fh, err := os.Create(path); err == nil {
				_ = pprof.WriteHeapProfile(fh)
				fh.Close()
			}
			if fh, err := os.Create(path + ".goroutines"); err == nil {
				_ = pprof.Lookup("goroutine").WriteTo(fh, 1)
				fh.Close()
			}
			os.Exit(3)
		}()
	}
	res := f(tier, shard, n)
	b, err := json.Marshal(res)
	if err != nil {
		fmt.Fprintln(os.Stderr, err)
		return 2
	}
	os.Stdout.Write(b)
	return 0
}

// shardDeadline is the moment a shard stops enumerating and reports exhaustive:false (a budget is never a failure).
func shardDeadline(tier string) time.Time {
	d := 4 * time.Minute
	if tier == "thorough" {
		d = 13 * time.Minute
	}
	return shardStart.Add(d)
}

var shardStart = time.Now()

func shardCount() int {
	n := runtime.NumCPU() - 2
	if n < 1 {
		n = 1
	}
	return n
}

// runSharded executes the named shard function in n worker processes and merges the results: integer coverage
// counters are summed, "samples" lists concatenated (first few kept), violations and harness errors concatenated.
func runSharded(name, tier string, n int) *CustomResult {
	out := &CustomResult{Coverage: map[string]interface{}{}}
	results := make([]*CustomResult, n)
	errs := make([]string, n)
	var wg sync.WaitGroup
	for i := 0; i < n; i++ {
		wg.Add(1)
		go func(i int) {
			defer wg.Done()
			cmd := exec.Command("/proc/self/exe", "shard", name, tier, fmt.Sprint(i), fmt.Sprint(n))
			// one P per worker: goroutine hand-offs are direct and the order in which goroutines started by one core
			// function run is the run queue order (FIFO), which is what makes the parallel preemption predicate checks
			// of the core report in a reproducible order (with two Ps the first answer wins ties differently from run
			// to run, seen as replay divergence in E2 and nondeterministic replay in E1)
			procs := "1"
			if name == "c17" || name == "c15" {
				procs = "2" // sequential enumerations: the second P only takes the garbage collector off the worker
			}
			if p := os.Getenv("VERIF_SHARD_PROCS"); p != "" {
				procs = p
			}
			cmd.Env = append(os.Environ(), "GOMAXPROCS="+procs, "VERIF_MAPMODE=1")
			var stdout, stderr bytes.Buffer
			cmd.Stdout, cmd.Stderr = &stdout, &stderr
			// a shard that does not finish is a harness error (never a silent hang of the check)
			timer := time.AfterFunc(20*time.Minute, func() {
				if cmd.Process != nil {
					_ = cmd.Process.Kill()
				}
			})
			err := cmd.Run()
			timer.Stop()
			if err != nil {
				tail := stderr.String()
				if len(tail) > 2000 {
					tail = tail[len(tail)-2000:]
				}
				errs[i] = fmt.Sprintf("shard %d/%d of %s failed: %v: %s", i, n, name, err, tail)
				return
			}
			var r CustomResult
			if err := json.Unmarshal(stdout.Bytes(), &r); err != nil {
				errs[i] = fmt.Sprintf("shard %d/%d of %s: unreadable result: %v", i, n, name, err)
				return
			}
			results[i] = &r
		}(i)
	}
	wg.Wait()
	var samples []interface{}
	for i, r := range results {
		if errs[i] != "" {
			out.Harness = append(out.Harness, errs[i])
			continue
		}
		for k, v := range r.Coverage {
			switch x := v.(type) {
			case float64:
				cur, _ := out.Coverage[k].(float64)
				out.Coverage[k] = cur + x
			case []interface{}:
				if k == "samples" && len(samples) < 6 {
					samples = append(samples, x...)
				} else if k != "samples" {
					cur, _ := out.Coverage[k].([]interface{})
					if len(cur) < 20 {
						out.Coverage[k] = append(cur, x...)
					}
				}
			case bool:
				cur, ok := out.Coverage[k].(bool)
				if !ok {
					cur = true
				}
				out.Coverage[k] = cur && x
			default:
				if _, have := out.Coverage[k]; !have {
					out.Coverage[k] = v
				}
			}
		}
		out.Violations = append(out.Violations, r.Violations...)
		out.Harness = append(out.Harness, r.Harness...)
	}
	for k, v := range out.Coverage {
		if f, ok := v.(float64); ok {
			out.Coverage[k] = int64(f)
		}
	}
	if len(samples) > 6 {
		samples = samples[:6]
	}
	out.Coverage["samples"] = samples
	out.Coverage["worker_processes"] = n
	return out
}
