package props

import (
	"strings"
	"time"

	"verif/harness/internal/mc"
	"verif/harness/internal/world"
)

var alphaCore = []string{"SCHEDULE", "NODE_ADD", "NODE_REMOVE", "NODE_DRAIN", "NODE_UNDRAIN", "APP_ADD", "APP_REMOVE", "ASK", "RELEASE"}

func withOps(base []string, extra ...string) []string {
	return append(append([]string{}, base...), extra...)
}

func op(k string, a ...string) world.Op {
	o := world.Op{K: k}
	if len(a) > 0 {
		o.A = a[0]
	}
	if len(a) > 1 {
		o.B = a[1]
	}
	return o
}

func scnCapBasic(name string, nodeSort string) *world.Scenario {
	conf := `partitions:
  - name: default
    nodesortpolicy:
      type: ` + nodeSort + `
    queues:
      - name: root
        submitacl: "*"
        queues:
          - name: a
          - name: b
`
	return &world.Scenario{
		Name:    name,
		Configs: []string{conf},
		Nodes: []world.NodeSpec{
			{ID: "n1", Cap: world.MV(2, 2), Caps: []Res{world.MV(1, 2)}},
			{ID: "n2", Cap: world.MV(3, 1)},
		},
		Apps: []world.AppSpec{
			{ID: "app1", Queue: "root.a", User: "u1", Groups: []string{"g1"}},
			{ID: "app2", Queue: "root.b", User: "u2", Groups: []string{"g2"}},
		},
		Asks: []world.AskSpec{
			{Key: "a1", App: "app1", Res: world.MV(1, 1), Create: 1001, Resize: world.MV(2, 1)},
			{Key: "a2", App: "app1", Res: world.M(2), Create: 1002, Resize: world.M(1), ResizeNoNode: true},
			{Key: "b1", App: "app2", Res: world.MV(2, 1), Create: 1003},
			{Key: "b2", App: "app2", Res: world.M(1), Create: 1004, BoundNode: "n1"},
		},
		Foreign:  []world.ForeignSpec{{Key: "f1", Node: "n1", Res: world.M(1), Res2: world.M(2)}},
		Deny:     [][2]string{{"a2", "n2"}},
		Alphabet: withOps(alphaCore, "NODE_CAP", "FOREIGN_ADD", "FOREIGN_UPDATE", "FOREIGN_REMOVE", "ASK_BOUND", "ASK_RESIZE"),
		Prefix:   []world.Op{op("NODE_ADD", "n1"), op("APP_ADD", "app1")},
	}
}

func init() {
	for _, pol := range []string{"fair", "binpacking"} {
		mc.Register(&mc.ScenarioDef{Scn: scnCapBasic("cap-basic-"+pol, pol), Monitors: []mc.Monitor{monC01()}})
		acct := scnCapBasic("acct-basic-"+pol, pol)
		acct.Alphabet = append(acct.Alphabet, "ASK_RELEASE", "RELEASE_ALL") // an ask with its own release in one update; release without key
		mc.Register(&mc.ScenarioDef{Scn: acct, Monitors: []mc.Monitor{monC03()}})
	}
	registerCheck(&CheckDef{Prop: "C01", Level: "model_checking", Technique: "explicit-state BFS over the real ClusterContext (bounded op sequences, canonical-state dedup)",
		Quick:          []Run{{Scenario: "cap-basic-fair", Depth: 6, MapModes: []int{1}}, {Scenario: "cap-basic-binpacking", Depth: 6, MapModes: []int{1}}, {Scenario: "gang-cap-Soft", Depth: 6, MapModes: []int{1}}, {Scenario: "reserve-cap", Depth: 7, MapModes: []int{1}}, {Scenario: "gang-cap-drain", Depth: 7, MapModes: []int{1}}, {Scenario: "gang-sparse-cap", Depth: 6, MapModes: []int{1}}},
		Thorough:       []Run{{Scenario: "gang-cap-drain", Depth: 9, MapModes: []int{1, 2}}, {Scenario: "gang-sparse-cap", Depth: 8, MapModes: []int{1}}, {Scenario: "cap-basic-fair", Depth: 8, MapModes: []int{1, 2}}, {Scenario: "cap-basic-binpacking", Depth: 8, MapModes: []int{1}}, {Scenario: "gang-cap-Soft", Depth: 8, MapModes: []int{1, 2}}, {Scenario: "reserve-cap", Depth: 8, MapModes: []int{1, 2}}},
		QuickBudget:    150 * time.Second,
		ThoroughBudget: 12 * time.Minute,
		// the moment of the binding under concurrency: scheduling cycle || allocation placed by the RM on the same node, node
		// registration, drain
		Also: c14Part("C01", "c01ilv", "step-C01-", func(n string) bool {
			return strings.HasPrefix(n, "S30-") || strings.HasPrefix(n, "S19-") || strings.HasPrefix(n, "S23-") || strings.HasPrefix(n, "S8-")
		}), Replay: replayC14,
	})
	registerCheck(&CheckDef{Prop: "C03", Level: "model_checking", Technique: "explicit-state BFS over the real ClusterContext (bounded op sequences, canonical-state dedup)",
		Quick:          []Run{{Scenario: "acct-basic-fair", Depth: 6, MapModes: []int{1}}, {Scenario: "gang-acct-Soft", Depth: 6, MapModes: []int{1}}, {Scenario: "gang-acct-Hard", Depth: 6, MapModes: []int{1}}, {Scenario: "reserve-acct", Depth: 6, MapModes: []int{1}}, {Scenario: "gang-acct-same", Depth: 6, MapModes: []int{1}}, {Scenario: "acct-bind", Depth: 6, MapModes: []int{1}}},
		Thorough:       []Run{{Scenario: "acct-bind", Depth: 6, MapModes: []int{1}}, {Scenario: "gang-acct-same", Depth: 9, MapModes: []int{1}}, {Scenario: "acct-basic-fair", Depth: 9, MapModes: []int{1, 2}}, {Scenario: "gang-acct-Soft", Depth: 9, MapModes: []int{1, 2}}, {Scenario: "gang-acct-Hard", Depth: 9, MapModes: []int{1}}, {Scenario: "reserve-acct", Depth: 9, MapModes: []int{1, 2}}},
		QuickBudget:    150 * time.Second,
		ThoroughBudget: 12 * time.Minute,
	})
}
