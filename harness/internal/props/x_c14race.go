package props

import (
	"fmt"
	"os"
	"os/exec"
	"path/filepath"
	"regexp"
	"runtime"
	"sort"
	"strings"
	"sync"
	"time"

	"verif/harness/internal/mc"
	"verif/harness/internal/world"
)

// Race pass (E4): the thread bodies of the C14 scenarios free-running on real sync mutexes in a binary built with
// -race. It is the prescribed COMPLEMENT of the cooperative scheduler (whose hand-offs are happens-before edges that
// blind the detector): it samples schedules, so it can only ever add findings, never establish absence.

// RacePassMain is the body of "vpx-race racepass <reps>": runs every scenario reps times.
func RacePassMain(reps int) int {
	runs := 0
	for _, sc := range c14Scenarios() {
		for r := 0; r < reps; r++ {
			runtime.GOMAXPROCS([]int{2, 4, 8, 3}[r%4])
			w, err := world.New(sc.Scn)
			if err != nil {
				fmt.Fprintln(os.Stderr, "racepass:", err)
				return 2
			}
			var wg sync.WaitGroup
			start := make(chan struct{})
			for _, ops := range sc.Threads {
				var fs []func()
				for _, o := range ops {
					fs = append(fs, rawOp(w, o))
				}
				wg.Add(1)
				go func() {
					defer wg.Done()
					defer func() { _ = recover() }()
					<-start
					for _, f := range fs {
						f()
					}
				}()
			}
			close(start)
			done := make(chan struct{})
			go func() { wg.Wait(); close(done) }()
			select {
			case <-done:
			case <-time.After(30 * time.Second):
				fmt.Fprintf(os.Stderr, "racepass: scenario %s did not finish (possible deadlock under free running)\n", sc.Name)
				return 3
			}
			time.Sleep(2 * time.Millisecond)
			w.Close()
			runs++
		}
	}
	fmt.Printf("racepass runs=%d\n", runs)
	return 0
}

var raceFrameRE = regexp.MustCompile(`^\s+(github\.com/apache/yunikorn-core/\S+?)\(\)\s*$`)

type raceReport struct {
	FP     string   `json:"fingerprint"`
	Access []string `json:"accesses"`
	Count  int      `json:"count"`
	Raw    string   `json:"firstReport,omitempty"`
}

// parseRaces reduces the detector's reports to (first repository frame of each of the two accesses), sorted.
func parseRaces(text string) []raceReport {
	byFP := map[string]*raceReport{}
	for _, block := range strings.Split(text, "WARNING: DATA RACE")[1:] {
		if i := strings.Index(block, "=================="); i >= 0 {
			block = block[:i]
		}
		var accesses []string
		lines := strings.Split(block, "\n")
		for i := 0; i < len(lines); i++ {
			l := lines[i]
			if strings.Contains(l, " by goroutine ") && (strings.Contains(l, "rite at") || strings.Contains(l, "ead at") || strings.Contains(l, "revious")) {
				kind := "read"
				if strings.Contains(strings.ToLower(l), "write") {
					kind = "write"
				}
				for j := i + 1; j < len(lines) && strings.TrimSpace(lines[j]) != ""; j++ {
					if m := raceFrameRE.FindStringSubmatch(lines[j]); m != nil && !strings.Contains(m[1], "verif_hooks") {
						fn := strings.TrimPrefix(m[1], "github.com/apache/yunikorn-core/pkg/")
						accesses = append(accesses, kind+" in "+fn)
						break
					}
				}
			}
		}
		if len(accesses) < 2 {
			continue
		}
		accesses = accesses[:2]
		sort.Strings(accesses)
		fp := strings.Join(accesses, " vs ")
		if byFP[fp] == nil {
			raw := block
			if len(raw) > 3000 {
				raw = raw[:3000]
			}
			byFP[fp] = &raceReport{FP: fp, Access: accesses, Raw: raw}
		}
		byFP[fp].Count++
	}
	var out []raceReport
	for _, r := range byFP {
		out = append(out, *r)
	}
	sort.Slice(out, func(i, j int) bool { return out[i].FP < out[j].FP })
	return out
}

// runRacePass executes the race binary (built by scripts/build.sh race) and returns its findings.
func runRacePass(reps int) (cov map[string]interface{}, found []mc.Found, harness []string) {
	bin := filepath.Join(filepath.Dir(os.Args[0]), "vpx-race")
	if exe, err := os.Executable(); err == nil {
		bin = filepath.Join(filepath.Dir(exe), "vpx-race")
	}
	if _, err := os.Stat(bin); err != nil {
		return map[string]interface{}{"race_pass": "not run: " + bin + " is not built"}, nil, nil
	}
	dir, err := os.MkdirTemp("", "racepass")
	if err != nil {
		return nil, nil, []string{"racepass: " + err.Error()}
	}
	defer os.RemoveAll(dir)
	cmd := exec.Command(bin, "racepass", fmt.Sprint(reps))
	cmd.Env = append(os.Environ(), "GORACE=log_path="+filepath.Join(dir, "race")+" halt_on_error=0 history_size=4", "VERIF_MAPMODE=1")
	out, err := cmd.CombinedOutput()
	if err != nil && !strings.Contains(string(out), "racepass runs=") {
		tail := string(out)
		if len(tail) > 600 {
			tail = tail[len(tail)-600:]
		}
		return nil, nil, []string{"racepass failed: " + err.Error() + ": " + tail}
	}
	text := ""
	files, _ := filepath.Glob(filepath.Join(dir, "race*"))
	for _, f := range files {
		b, _ := os.ReadFile(f)
		text += string(b)
	}
	reports := parseRaces(text)
	for _, r := range reports {
		found = append(found, mc.Found{Scenario: "c14-race", Viol: mc.Violation{Prop: "C14", Rule: "data-race", FP: "C14:data-race:" + r.FP,
			Detail: fmt.Sprintf("the race detector reported a data race (%d reports): %s", r.Count, r.FP)}, Custom: r})
	}
	return map[string]interface{}{"race_pass_runs_per_scenario": reps, "race_pass_distinct_races": len(reports), "race_pass_note": "free-running -race build of the same thread bodies; complement of the interleaving explorer, not exhaustive"}, found, nil
}
