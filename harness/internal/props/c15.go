package props

import (
	"fmt"
	"regexp"
	"strconv"
	"strings"
	"time"

	"go.yaml.in/yaml/v3"

	"github.com/apache/yunikorn-core/pkg/common/configs"

	"verif/harness/internal/mc"
	"verif/harness/internal/world"
)

// C15: configuration validation is sound. Bounded exhaustive enumeration (E3) of YAML documents in seven families;
// every document goes through the REAL validation under every map iteration mode (determinism), and every accepted
// document is (a) judged by an independent transcription of the documented hierarchy rules evaluated on a separately
// parsed copy, (b) loaded into a new scheduler, (c) reloaded into a scheduler that runs a base configuration, and
// the base configuration is reloaded over it again.

type c15Doc struct {
	Family string `json:"family"`
	YAML   string `json:"yaml"`
}

const c15Base = `partitions:
  - name: default
    queues:
      - name: root
        submitacl: "*"
        queues:
          - name: base1
          - name: base2
`

func ind(n int) string { return strings.Repeat(" ", n) }

func resYAML(indent int, max, guar map[string]string) string {
	if max == nil && guar == nil {
		return ""
	}
	s := ind(indent) + "resources:\n"
	wr := func(name string, m map[string]string) {
		if m == nil {
			return
		}
		s += ind(indent+2) + name + ":\n"
		for _, k := range sortedKeys(m) {
			s += ind(indent+4) + k + ": " + m[k] + "\n"
		}
		if len(m) == 0 {
			s = strings.TrimSuffix(s, ":\n") + ": {}\n"
		}
	}
	wr("guaranteed", guar)
	wr("max", max)
	return s
}

type c15Limit struct {
	Users   []string
	Groups  []string
	MaxRes  map[string]string
	MaxApps int
}

func limitsYAML(indent int, ls []c15Limit) string {
	if len(ls) == 0 {
		return ""
	}
	s := ind(indent) + "limits:\n"
	for i, l := range ls {
		s += ind(indent+2) + "- limit: l" + strconv.Itoa(i) + "\n"
		if len(l.Users) > 0 {
			s += ind(indent+4) + "users: [\"" + strings.Join(l.Users, "\", \"") + "\"]\n"
		}
		if len(l.Groups) > 0 {
			s += ind(indent+4) + "groups: [\"" + strings.Join(l.Groups, "\", \"") + "\"]\n"
		}
		if l.MaxRes != nil {
			s += ind(indent+4) + "maxresources:\n"
			for _, k := range sortedKeys(l.MaxRes) {
				s += ind(indent+6) + k + ": " + l.MaxRes[k] + "\n"
			}
		}
		if l.MaxApps != 0 {
			s += ind(indent+4) + "maxapplications: " + strconv.Itoa(l.MaxApps) + "\n"
		}
	}
	return s
}

type c15Q struct {
	Name     string
	Parent   *bool
	Max      map[string]string
	Guar     map[string]string
	MaxApps  int
	Limits   []c15Limit
	Extra    string // raw yaml lines (already indented relative to the queue body with 0)
	Children []c15Q
}

func (q c15Q) yaml(indent int) string {
	s := ind(indent) + "- name: " + q.Name + "\n"
	b := indent + 2
	if q.Parent != nil {
		s += ind(b) + "parent: " + strconv.FormatBool(*q.Parent) + "\n"
	}
	if q.MaxApps != 0 {
		s += ind(b) + "maxapplications: " + strconv.Itoa(q.MaxApps) + "\n"
	}
	s += resYAML(b, q.Max, q.Guar)
	s += limitsYAML(b, q.Limits)
	if q.Extra != "" {
		for _, l := range strings.Split(strings.TrimRight(q.Extra, "\n"), "\n") {
			s += ind(b) + l + "\n"
		}
	}
	if len(q.Children) > 0 {
		s += ind(b) + "queues:\n"
		for _, c := range q.Children {
			s += c.yaml(b + 2)
		}
	}
	return s
}

func docOf(top []c15Q, partitionExtra string) string {
	s := "partitions:\n  - name: default\n" + partitionExtra + "    queues:\n"
	for _, q := range top {
		s += q.yaml(6)
	}
	return s
}

func rootWith(children ...c15Q) []c15Q {
	return []c15Q{{Name: "root", Extra: "submitacl: \"*\"", Children: children}}
}

// ---------------------------------------------------------------- families

func c15Families(thorough bool, emit func(c15Doc)) {
	R := []map[string]string{nil, {"memory": "5"}, {"memory": "10"}, {"vcore": "5"}, {"memory": "5", "vcore": "10"}, {"memory": "0"}}
	// F1a: root -> {a, b}: full product of max x guaranteed on both
	for _, am := range R {
		for _, ag := range R {
			for _, bm := range R {
				for _, bg := range R {
					emit(c15Doc{"F1-resources-flat", docOf(rootWith(c15Q{Name: "a", Max: am, Guar: ag}, c15Q{Name: "b", Max: bm, Guar: bg}), "")})
				}
			}
		}
	}
	// F1b: root -> {p -> {a, b}}: p full, children reduced
	Rm := []map[string]string{nil, {"memory": "10"}, {"vcore": "5"}, {"memory": "5", "vcore": "10"}}
	Rg := []map[string]string{nil, {"memory": "5"}, {"vcore": "10"}, {"memory": "3", "vcore": "3"}}
	if thorough {
		Rm, Rg = R, R
	} else {
		Rm, Rg = R[:5], R[:5]
	}
	for _, pm := range R {
		for _, pg := range R {
			for _, am := range Rm {
				for _, ag := range Rg {
					for _, bm := range Rm[:2] {
						for _, bg := range Rg {
							emit(c15Doc{"F1-resources-nested", docOf(rootWith(c15Q{Name: "p", Max: pm, Guar: pg, Children: []c15Q{{Name: "a", Max: am, Guar: ag}, {Name: "b", Max: bm, Guar: bg}}}), "")})
						}
					}
				}
			}
		}
	}
	// F2: limit resources on root / p / a
	L := [][]c15Limit{nil,
		{{Users: []string{"u1"}, MaxRes: map[string]string{"memory": "5"}}},
		{{Users: []string{"u1"}, MaxRes: map[string]string{"memory": "10"}}},
		{{Users: []string{"*"}, MaxRes: map[string]string{"memory": "5"}}},
		{{Users: []string{"*"}, MaxRes: map[string]string{"memory": "10"}}},
		{{Users: []string{"u1"}, MaxRes: map[string]string{"memory": "5"}}, {Users: []string{"*"}, MaxRes: map[string]string{"memory": "10"}}},
		{{Users: []string{"u1"}, MaxRes: map[string]string{"vcore": "7"}}},
		{{Groups: []string{"g1"}, MaxRes: map[string]string{"memory": "5"}}},
		{{Groups: []string{"g1"}, MaxRes: map[string]string{"memory": "10"}}, {Groups: []string{"*"}, MaxRes: map[string]string{"memory": "5"}}},
		{{Groups: []string{"*"}, MaxRes: map[string]string{"memory": "5"}}},
		{{Users: []string{"u1"}, Groups: []string{"g1"}, MaxRes: map[string]string{"memory": "10", "vcore": "10"}}},
	}
	for _, rl := range L {
		for _, pl := range L {
			for _, al := range L {
				for _, pmax := range []map[string]string{nil, {"memory": "8"}} {
					emit(c15Doc{"F2-limit-resources", docOf([]c15Q{{Name: "root", Extra: "submitacl: \"*\"", Limits: rl, Children: []c15Q{{Name: "p", Max: pmax, Limits: pl, Children: []c15Q{{Name: "a", Limits: al}}}}}}, "")})
				}
			}
		}
	}
	// F3: max applications of queues and limits on three levels
	LA := [][]c15Limit{nil,
		{{Users: []string{"u1"}, MaxApps: 1}}, {{Users: []string{"u1"}, MaxApps: 2}},
		{{Users: []string{"*"}, MaxApps: 1}}, {{Users: []string{"*"}, MaxApps: 2}},
		{{Groups: []string{"g1"}, MaxApps: 2}, {Groups: []string{"*"}, MaxApps: 1}},
	}
	for _, rq := range []int{0, 1, 2} {
		for _, pq := range []int{0, 1, 2} {
			for _, aq := range []int{0, 1, 2} {
				for _, rl := range LA {
					for _, pl := range LA {
						for _, al := range LA {
							emit(c15Doc{"F3-max-applications", docOf([]c15Q{{Name: "root", MaxApps: rq, Limits: rl, Children: []c15Q{{Name: "p", MaxApps: pq, Limits: pl, Children: []c15Q{{Name: "a", MaxApps: aq, Limits: al}}}}}}, "")})
						}
					}
				}
			}
		}
	}
	// F4: structure and names
	tr, fa := true, false
	names := []string{"a", "A", "a.b", "a b", "\"\"", strings.Repeat("x", 64), strings.Repeat("x", 65), "root", "a-b_c", "a@b#c:d/e", "ä"}
	for _, top := range []string{"root", "ROOT", "Root"} {
		for _, n1 := range names {
			for _, n2 := range names {
				emit(c15Doc{"F4-names", docOf([]c15Q{{Name: top, Children: []c15Q{{Name: n1}, {Name: n2}}}}, "")})
			}
		}
	}
	for _, n1 := range names[:4] {
		emit(c15Doc{"F4-structure", docOf([]c15Q{{Name: n1}, {Name: "b"}}, "")})                                   // no root at all
		emit(c15Doc{"F4-structure", docOf([]c15Q{{Name: "root", Children: []c15Q{{Name: "x"}}}, {Name: n1}}, "")}) // two top level queues
		emit(c15Doc{"F4-structure", docOf([]c15Q{{Name: n1, Children: []c15Q{{Name: "root"}}}}, "")})              // single top queue that is not root
	}
	for _, pf := range []*bool{nil, &tr, &fa} {
		for _, withKids := range []bool{false, true} {
			q := c15Q{Name: "p", Parent: pf}
			if withKids {
				q.Children = []c15Q{{Name: "x"}}
			}
			emit(c15Doc{"F4-structure", docOf(rootWith(q), "")})
			emit(c15Doc{"F4-structure", docOf([]c15Q{{Name: "root", Parent: pf, Children: []c15Q{q}}}, "")})
		}
	}
	emit(c15Doc{"F4-structure", docOf([]c15Q{{Name: "root", Max: map[string]string{"memory": "5"}}}, "")})
	emit(c15Doc{"F4-structure", docOf([]c15Q{{Name: "root", Guar: map[string]string{}}}, "")})
	emit(c15Doc{"F4-structure", "partitions:\n  - name: default\n"})
	emit(c15Doc{"F4-structure", "partitions: []\n"})
	for _, p2 := range []string{"default", "DEFAULT", "\"\"", "other", "[rm]default"} {
		emit(c15Doc{"F4-partitions", docOf(rootWith(c15Q{Name: "a"}), "") + "  - name: " + p2 + "\n    queues:\n      - name: root\n        queues:\n          - name: z\n"})
	}
	// F5: placement rules
	type rs struct {
		name, value string
	}
	ruleKinds := []rs{{"provided", ""}, {"user", ""}, {"tag", ""}, {"tag", "ns"}, {"fixed", ""}, {"fixed", "a"}, {"fixed", "root.a"}, {"fixed", "root.p"}, {"fixed", "root.p.x"}, {"fixed", "p"},
		{"fixed", "root.p.new"}, {"fixed", "a.b"}, {"fixed", "root.a.sub"}, {"fixed", "bad name"}, {"fixed", "rootx"}, {"unknown", ""}, {"recovery", ""}, {"Fixed", "A"}, {"fixed-rule", "a"}, {"test", ""}}
	parentKinds := []rs{{"", ""}, {"fixed", "p"}, {"fixed", "root.p"}, {"fixed", "a"}, {"user", ""}, {"tag", "ns"}, {"unknown", ""}, {"fixed", "nope"}}
	filters := []string{"", "filter:\n  type: allow\n  users: [u1]\n", "filter:\n  type: bogus\n", "filter:\n  users: [\"u[\"]\n", "filter:\n  type: deny\n  groups: [\"*\"]\n", "filter:\n  users: [\"u.*\"]\n  groups: [g1, \"bad group!\"]\n"}
	ruleY := func(k rs, create bool, parent rs, pcreate bool, filter string, indent int) string {
		s := ind(indent) + "- name: " + k.name + "\n"
		if k.value != "" {
			s += ind(indent+2) + "value: " + k.value + "\n"
		}
		if create {
			s += ind(indent+2) + "create: true\n"
		}
		for _, l := range strings.Split(strings.TrimRight(filter, "\n"), "\n") {
			if l != "" {
				s += ind(indent+2) + l + "\n"
			}
		}
		if parent.name != "" {
			s += ind(indent+2) + "parent:\n" + ind(indent+4) + "name: " + parent.name + "\n"
			if parent.value != "" {
				s += ind(indent+4) + "value: " + parent.value + "\n"
			}
			if pcreate {
				s += ind(indent+4) + "create: true\n"
			}
		}
		return s
	}
	tree := rootWith(c15Q{Name: "a"}, c15Q{Name: "p", Parent: &tr, Children: []c15Q{{Name: "x"}}})
	for _, k := range ruleKinds {
		for _, cr := range []bool{false, true} {
			for _, pk := range parentKinds {
				for _, pcr := range []bool{false, true} {
					if pk.name == "" && pcr {
						continue
					}
					for fi, f := range filters {
						if fi > 0 && (pk.name != "" || cr) && !thorough {
							continue
						}
						emit(c15Doc{"F5-placement-rules", docOf(tree, "    placementrules:\n"+ruleY(k, cr, pk, pcr, f, 6))})
					}
				}
			}
		}
	}
	for _, k1 := range ruleKinds[:10] {
		for _, k2 := range ruleKinds {
			emit(c15Doc{"F5-placement-chains", docOf(tree, "    placementrules:\n"+ruleY(k1, true, rs{}, false, "", 6)+ruleY(k2, false, rs{}, false, "", 6))})
		}
	}
	// F6: ACL strings: every string of length <= 4 over the alphabet
	alpha := []string{"u", "g", ",", " ", "*", "\\t"}
	var acls []string
	var gen func(cur string, n int)
	gen = func(cur string, n int) {
		acls = append(acls, cur)
		if n == 0 {
			return
		}
		for _, a := range alpha {
			gen(cur+a, n-1)
		}
	}
	maxLen := 4
	if thorough {
		maxLen = 5
	}
	gen("", maxLen)
	for _, a := range acls {
		for _, kind := range []string{"submitacl", "adminacl"} {
			emit(c15Doc{"F6-acl", docOf([]c15Q{{Name: "root", Children: []c15Q{{Name: "a", Extra: kind + ": \"" + a + "\""}}}}, "")})
		}
	}
	// F7: child templates, properties, node sort policy, quantities with units
	quantities := []string{"1", "0", "-1", "1G", "1Gi", "500m", "1.5", "1e3", "\" 1\"", "abc", "9223372036854775807", "9223372036854775808", "10000000G", "1k", "1Ki", "\"\""}
	for _, qv := range quantities {
		for _, key := range []string{"memory", "vcore"} {
			emit(c15Doc{"F7-quantities", docOf(rootWith(c15Q{Name: "a", Max: map[string]string{key: qv}}), "")})
			emit(c15Doc{"F7-quantities", docOf(rootWith(c15Q{Name: "a", Guar: map[string]string{key: qv}}), "")})
			emit(c15Doc{"F7-quantities", docOf(rootWith(c15Q{Name: "a", Limits: []c15Limit{{Users: []string{"u1"}, MaxRes: map[string]string{key: qv}}}}), "")})
			emit(c15Doc{"F7-template", docOf(rootWith(c15Q{Name: "p", Parent: &tr, Extra: "childtemplate:\n  resources:\n    max:\n      " + key + ": " + qv + "\n"}), "    placementrules:\n      - name: provided\n        create: true\n")})
			emit(c15Doc{"F7-template", docOf(rootWith(c15Q{Name: "p", Parent: &tr, Extra: "childtemplate:\n  resources:\n    guaranteed:\n      " + key + ": " + qv + "\n    max:\n      " + key + ": 5\n"}), "")})
			// a queue that is a parent only because it lists children (no parent flag in the document) loads its template too
			emit(c15Doc{"F7-template", docOf(rootWith(c15Q{Name: "p", Children: []c15Q{{Name: "x"}}, Extra: "childtemplate:\n  resources:\n    max:\n      " + key + ": " + qv + "\n"}), "")})
			emit(c15Doc{"F7-template", docOf(rootWith(c15Q{Name: "p", Children: []c15Q{{Name: "x"}}, Extra: "childtemplate:\n  resources:\n    guaranteed:\n      " + key + ": " + qv + "\n"}), "")})
		}
	}
	emit(c15Doc{"F7-template", docOf(rootWith(c15Q{Name: "leaf", Extra: "childtemplate:\n  maxapplications: 2\n"}), "")})
	emit(c15Doc{"F7-template", docOf(rootWith(c15Q{Name: "p", Parent: &tr, MaxApps: 1, Extra: "childtemplate:\n  maxapplications: 5\n"}), "")})
	emit(c15Doc{"F7-template", docOf(rootWith(c15Q{Name: "p", Parent: &tr, Max: map[string]string{"memory": "5"}, Extra: "childtemplate:\n  resources:\n    max:\n      memory: 50\n"}), "")})
	props := [][2]string{{"application.sort.policy", "fifo"}, {"application.sort.policy", "fair"}, {"application.sort.policy", "bogus"}, {"application.sort.policy", "stateaware"},
		{"application.sort.priority", "enabled"}, {"application.sort.priority", "maybe"}, {"priority.policy", "fence"}, {"priority.policy", "bogus"}, {"priority.offset", "5"}, {"priority.offset", "abc"},
		{"priority.offset", "99999999999"}, {"preemption.policy", "fence"}, {"preemption.policy", "disabled"}, {"preemption.policy", "bogus"}, {"preemption.delay", "10s"}, {"preemption.delay", "-1s"}, {"preemption.delay", "abc"},
		{"quota.preemption.delay", "1s"}, {"quota.preemption.delay", "0"}, {"quota.preemption.delay", "abc"}, {"unknown.property", "x"}}
	for _, p := range props {
		for _, where := range []string{"root", "p", "a", "template"} {
			root := c15Q{Name: "root"}
			pq := c15Q{Name: "p", Parent: &tr, Children: []c15Q{{Name: "a"}}}
			line := "properties:\n  " + p[0] + ": \"" + p[1] + "\"\n"
			switch where {
			case "root":
				root.Extra = line
			case "p":
				pq.Extra = line
			case "a":
				pq.Children[0].Extra = line
			case "template":
				pq.Extra = "childtemplate:\n  properties:\n    " + p[0] + ": \"" + p[1] + "\"\n"
			}
			root.Children = []c15Q{pq}
			emit(c15Doc{"F7-properties", docOf([]c15Q{root}, "")})
		}
	}
	for _, pol := range []string{"fair", "binpacking", "bogus", "\"\"", "FAIR"} {
		for _, w := range []string{"", "      resourceweights:\n        memory: 1.5\n", "      resourceweights:\n        memory: -1\n", "      resourceweights:\n        vcore: 0\n"} {
			emit(c15Doc{"F7-nodesort", docOf(rootWith(c15Q{Name: "a"}), "    nodesortpolicy:\n      type: "+pol+"\n"+w)})
		}
	}
	for _, pre := range []string{"    preemption:\n      enabled: false\n", "    preemption:\n      enabled: true\n      quotapreemptionenabled: true\n", "    preemption:\n      enabled: maybe\n"} {
		emit(c15Doc{"F7-preemption", docOf(rootWith(c15Q{Name: "a"}), pre)})
	}
	emit(c15Doc{"F7-limits-partition", docOf(rootWith(c15Q{Name: "a"}), "    limits:\n      - limit: pl\n        users: [u1]\n        maxapplications: 2\n")})
	emit(c15Doc{"F7-limits-partition", docOf([]c15Q{{Name: "root", Limits: []c15Limit{{Users: []string{"u2"}, MaxApps: 1}}}}, "    limits:\n      - limit: pl\n        users: [u1]\n        maxapplications: 2\n")})
}

// ---------------------------------------------------------------- reference: documented hierarchy rules

var c15UserRE = regexp.MustCompile(`^[_a-zA-Z][a-zA-Z0-9:#/_.@-]*[$]?$`)

type c15Vec map[string]int64

func parseVec(m map[string]string) (c15Vec, bool) {
	out := c15Vec{}
	for k, s := range m {
		v, ok := refParse(s, k == "vcore")
		if !ok {
			// the wider but still exact grammar (optional '+', surrounding spaces) the quantity check of C18 allows
			if v, ok = refParseLoose(s, k == "vcore"); !ok {
				return nil, false
			}
		}
		out[k] = v
	}
	return out, true
}

// within: a <= b on every type both define
func within(a, b c15Vec) (string, bool) {
	for k, v := range a {
		if lim, ok := b[k]; ok && v > lim {
			return k, false
		}
	}
	return "", true
}

func minVec(a, b c15Vec) c15Vec { // per type minimum, a type defined on one side only is taken from that side
	o := c15Vec{}
	for k, v := range a {
		o[k] = v
	}
	for k, v := range b {
		if cur, ok := o[k]; !ok || v < cur {
			o[k] = v
		}
	}
	return o
}

type c15Ref struct {
	fail func(rule, fp, format string, args ...interface{})
}

func (r *c15Ref) queue(q *configs.QueueConfig, path string, parentEffMax c15Vec, parentApps uint64, ancUser, ancGroup []map[string]c15Limit2) {
	max, ok1 := parseVec(q.Resources.Max)
	guar, ok2 := parseVec(q.Resources.Guaranteed)
	if !ok1 || !ok2 {
		r.fail("accepted-unparsable-quantity", "quantity", "queue %s: accepted although a resource quantity does not parse exactly (max %v guaranteed %v)", path, q.Resources.Max, q.Resources.Guaranteed)
		return
	}
	for k, v := range max {
		if v < 0 {
			r.fail("accepted-negative-quantity", "max", "queue %s: negative maximum %s=%d accepted", path, k, v)
		}
	}
	for k, v := range guar {
		if v < 0 {
			r.fail("accepted-negative-quantity", "guaranteed", "queue %s: negative guaranteed %s=%d accepted", path, k, v)
		}
	}
	if k, ok := within(max, parentEffMax); !ok {
		r.fail("max-above-parent", "max", "queue %s: maximum %s=%d is above the parent's effective maximum %d", path, k, max[k], parentEffMax[k])
	}
	if k, ok := within(guar, max); !ok {
		r.fail("guaranteed-above-max", "guaranteed", "queue %s: guaranteed %s=%d is above its maximum %d", path, k, guar[k], max[k])
	}
	eff := minVec(max, parentEffMax)
	sum := c15Vec{}
	seen := map[string]bool{}
	for i := range q.Queues {
		c := &q.Queues[i]
		if !configs.QueueNameRegExp.MatchString(c.Name) {
			r.fail("invalid-queue-name", "name", "queue %s: child name %q is not a valid queue name", path, c.Name)
		}
		if seen[strings.ToLower(c.Name)] {
			r.fail("duplicate-queue-name", "name", "queue %s: child name %q is not unique (case insensitive)", path, c.Name)
		}
		seen[strings.ToLower(c.Name)] = true
		cg, ok := parseVec(c.Resources.Guaranteed)
		if ok {
			for k, v := range cg {
				sum[k] += v
			}
		}
		if q.MaxApplications != 0 && (c.MaxApplications == 0 || c.MaxApplications > q.MaxApplications) {
			r.fail("max-applications-increasing", "queue", "queue %s: child %s max applications %d (0 = unlimited) is not within the parent's %d", path, c.Name, c.MaxApplications, q.MaxApplications)
		}
	}
	if len(guar) > 0 {
		if k, ok := within(sum, guar); !ok {
			r.fail("children-guaranteed-above-parent-guaranteed", "sum", "queue %s: the children's guaranteed %s sums to %d, above the queue's guaranteed %d", path, k, sum[k], guar[k])
		}
	}
	if k, ok := within(sum, eff); !ok {
		r.fail("children-guaranteed-above-parent-max", "sum", "queue %s: the children's guaranteed %s sums to %d, above the queue's maximum %d", path, k, sum[k], eff[k])
	}
	// limits of this queue
	users, groups := map[string]c15Limit2{}, map[string]c15Limit2{}
	for _, l := range q.Limits {
		lv, ok := parseVec(l.MaxResources)
		if !ok {
			r.fail("accepted-unparsable-quantity", "limit", "queue %s: limit %s accepted although a quantity does not parse exactly: %v", path, l.Limit, l.MaxResources)
			continue
		}
		if path != "root" {
			if k, ok := within(lv, max); !ok {
				r.fail("limit-above-queue-max", "limit", "queue %s: limit %s maxresources %s=%d is above the queue maximum %d", path, l.Limit, k, lv[k], max[k])
			}
		}
		if q.MaxApplications != 0 && l.MaxApplications > q.MaxApplications {
			r.fail("limit-apps-above-queue", "limit", "queue %s: limit %s max applications %d above the queue's %d", path, l.Limit, l.MaxApplications, q.MaxApplications)
		}
		if len(l.Users) == 0 && len(l.Groups) == 0 {
			r.fail("limit-without-subject", "limit", "queue %s: limit %s names no user and no group", path, l.Limit)
		}
		for _, u := range l.Users {
			if u != "*" && !c15UserRE.MatchString(u) {
				r.fail("limit-invalid-user", "limit", "queue %s: limit user %q accepted", path, u)
			}
			if _, dup := users[u]; dup {
				r.fail("limit-duplicate-user", "limit", "queue %s: user %q has two limits", path, u)
			}
			users[u] = c15Limit2{lv, l.MaxApplications}
		}
		for _, g := range l.Groups {
			if _, dup := groups[g]; dup {
				r.fail("limit-duplicate-group", "limit", "queue %s: group %q has two limits", path, g)
			}
			groups[g] = c15Limit2{lv, l.MaxApplications}
		}
	}
	checkAnc := func(kind string, own map[string]c15Limit2, anc []map[string]c15Limit2) {
		for name, lim := range own {
			named := false
			for i := len(anc) - 1; i >= 0; i-- {
				if a, ok := anc[i][name]; ok {
					named = true
					if k, ok := within(lim.res, a.res); !ok {
						r.fail("limit-above-ancestor", kind+"-resources", "queue %s: %s %q maxresources %s=%d is above the same %s's limit %d on an ancestor", path, kind, name, k, lim.res[k], kind, a.res[k])
					}
					if a.apps != 0 && (lim.apps == 0 || lim.apps > a.apps) {
						r.fail("limit-above-ancestor", kind+"-applications", "queue %s: %s %q max applications %d (0 = unlimited) is above the same %s's limit %d on an ancestor", path, kind, name, lim.apps, kind, a.apps)
					}
				}
			}
			if named || name == "*" {
				continue
			}
			// no ancestor names the user/group: the closest wildcard limit applies
			for i := len(anc) - 1; i >= 0; i-- {
				if a, ok := anc[i]["*"]; ok {
					if k, ok := within(lim.res, a.res); !ok {
						r.fail("limit-above-ancestor-wildcard", kind+"-resources", "queue %s: %s %q maxresources %s=%d is above the wildcard limit %d on the closest ancestor that has one", path, kind, name, k, lim.res[k], a.res[k])
					}
					if a.apps != 0 && (lim.apps == 0 || lim.apps > a.apps) {
						r.fail("limit-above-ancestor-wildcard", kind+"-applications", "queue %s: %s %q max applications %d (0 = unlimited) is above the wildcard limit %d on the closest ancestor that has one", path, kind, name, lim.apps, a.apps)
					}
					break
				}
			}
		}
	}
	checkAnc("user", users, ancUser)
	checkAnc("group", groups, ancGroup)
	for i := range q.Queues {
		c := &q.Queues[i]
		r.queue(c, path+"."+strings.ToLower(c.Name), eff, q.MaxApplications, append(append([]map[string]c15Limit2{}, ancUser...), users), append(append([]map[string]c15Limit2{}, ancGroup...), groups))
	}
}

type c15Limit2 struct {
	res  c15Vec
	apps uint64
}

// ---------------------------------------------------------------- driver

type c15Run struct {
	evals, accepted int
	nontrivial      map[string]bool
	outcomes        map[string]bool
	found           []mc.Found
	fpSeen          map[string]int
	samples         []interface{}
	perFamily       map[string]int
}

func (r *c15Run) failDoc(d c15Doc, rule, fp, format string, args ...interface{}) {
	fp = d.Family + "/" + fp
	r.fpSeen[fp]++
	if r.fpSeen[fp] > 2 {
		return
	}
	r.found = append(r.found, mc.Found{Scenario: "c15", Viol: mc.Violation{Prop: "C15", Rule: rule, FP: "C15:" + rule + ":" + fp, Detail: fmt.Sprintf(format, args...)}, Custom: d})
}

func errClass(err error) string {
	if err == nil {
		return "accepted"
	}
	return "rejected: " + err.Error()
}

func (r *c15Run) checkDoc(d c15Doc) {
	r.evals++
	r.perFamily[d.Family]++
	// ---- determinism over map iteration orders
	verdicts := map[string]bool{}
	first := ""
	saved := world.MapMode()
	for m := 1; m <= 8; m++ {
		world.SetMapMode(m)
		var err error
		if p := safely(func() { _, err = configs.LoadSchedulerConfigFromByteArray([]byte(d.YAML)) }); p != nil {
			world.SetMapMode(saved)
			r.failDoc(d, "validation-panics", "panic", "validation panicked: %v", p)
			return
		}
		v := errClass(err)
		if m == 1 {
			first = v
		}
		verdicts[v] = true
	}
	world.SetMapMode(saved)
	if len(verdicts) > 1 {
		r.failDoc(d, "validation-depends-on-map-order", "verdict", "validation verdict/message differs between map iteration orders: %v", sortedKeys(verdicts))
	}
	r.outcomes[strings.SplitN(first, " ", 4)[0]+"|"+d.Family] = true
	if first != "accepted" {
		return
	}
	r.accepted++
	r.nontrivial[d.YAML] = true
	if len(r.samples) < 3 && r.accepted%211 == 1 {
		r.samples = append(r.samples, d)
	}
	// ---- documented hierarchy rules on an independently parsed copy
	var sc configs.SchedulerConfig
	if err := yaml.Unmarshal([]byte(d.YAML), &sc); err != nil {
		r.failDoc(d, "harness", "yaml", "accepted document does not parse in the harness: %v", err)
		return
	}
	ref := &c15Ref{fail: func(rule, fp, format string, args ...interface{}) { r.failDoc(d, rule, fp, format, args...) }}
	for pi := range sc.Partitions {
		p := &sc.Partitions[pi]
		var root *configs.QueueConfig
		if len(p.Queues) == 1 && strings.EqualFold(p.Queues[0].Name, "root") {
			root = &p.Queues[0]
		} else {
			root = &configs.QueueConfig{Name: "root", Parent: true, Queues: p.Queues}
		}
		if len(root.Resources.Max) > 0 || len(root.Resources.Guaranteed) > 0 {
			ref.fail("root-with-resources", "root", "root queue has resource limits")
		}
		if len(root.Limits) == 0 {
			root.Limits = p.Limits
		}
		ref.queue(root, "root", c15Vec{}, 0, nil, nil)
	}
	// ---- loadable into a new scheduler
	scn := &world.Scenario{Name: "c15-new", Configs: []string{d.YAML}, Alphabet: []string{"CONFIG"}}
	var w *world.World
	var err error
	if p := safely(func() { w, err = world.New(scn) }); p != nil {
		r.failDoc(d, "load-panics", "new", "loading the accepted configuration into a new scheduler panicked: %v", p)
		return
	}
	if err != nil {
		r.failDoc(d, "accepted-but-not-loadable", "new:"+errShape(err.Error()), "accepted by validation but a new scheduler cannot load it: %v", err)
	}
	if w != nil {
		w.Close()
	}
	// ---- loadable into a running scheduler, and replaceable again
	scn2 := &world.Scenario{Name: "c15-reload", Configs: []string{c15Base, d.YAML}, Alphabet: []string{"CONFIG"}, Watchdog: true}
	w2, err := world.New(scn2)
	if err != nil {
		r.failDoc(d, "harness", "base", "base configuration does not load: %v", err)
		return
	}
	defer w2.Close()
	st := w2.Apply(world.Op{K: "CONFIG", N: 1})
	if st.Hang != "" {
		r.failDoc(d, "load-hangs", "reload", "reloading the accepted configuration into a running scheduler does not return: %s", firstLine(st.Hang))
		return
	}
	if st.Panic != "" {
		r.failDoc(d, "load-panics", "reload", "reloading the accepted configuration into a running scheduler crashed: %s", firstLine(st.Panic))
		return
	}
	if st.Result != "ok" {
		r.failDoc(d, "accepted-but-not-loadable", "reload:"+errShape(st.Result), "accepted by validation but a running scheduler refuses the reload: %s", st.Result)
		return
	}
	st = w2.Apply(world.Op{K: "CONFIG", N: 0})
	if st.Hang != "" {
		r.failDoc(d, "load-hangs", "reload-back", "reloading the base configuration over the accepted one does not return: %s", firstLine(st.Hang))
		return
	}
	if st.Panic != "" {
		r.failDoc(d, "load-panics", "reload-back", "reloading the base configuration over the accepted one crashed: %s", firstLine(st.Panic))
		return
	}
	if st.Result != "ok" {
		r.failDoc(d, "accepted-but-not-loadable", "reload-back:"+errShape(st.Result), "the base configuration cannot be reloaded over the accepted one: %s", st.Result)
	}
}

var c15QuoteRE = regexp.MustCompile(`'[^']*'|"[^"]*"|\([^)]*\)|\b[0-9]+\b`)

// errShape reduces an error message to its shape (quoted parts and numbers removed) for fingerprinting.
func errShape(s string) string {
	s = c15QuoteRE.ReplaceAllString(s, "_")
	if len(s) > 70 {
		s = s[:70]
	}
	return strings.ReplaceAll(s, " ", "-")
}

func c15Shard(tier string, shard, n int) *CustomResult {
	run := &c15Run{nontrivial: map[string]bool{}, outcomes: map[string]bool{}, fpSeen: map[string]int{}, perFamily: map[string]int{}}
	i, skipped := 0, 0
	deadline := shardDeadline(tier)
	seen := map[string]bool{}
	c15Families(tier == "thorough", func(d c15Doc) {
		if seen[d.YAML] {
			return
		}
		seen[d.YAML] = true
		i++
		if i%n == shard {
			if time.Now().After(deadline) {
				skipped++
				return
			}
			run.checkDoc(d)
		}
	})
	if len(run.samples) == 0 {
		run.samples = append(run.samples, c15Doc{"F4-structure", "partitions: []\n"})
	}
	cov := map[string]interface{}{"evaluations": run.evals, "distinct_nontrivial": len(run.nontrivial), "accepted_documents": run.accepted, "samples": run.samples, "exhaustive": skipped == 0, "documents_not_run_time_budget": skipped}
	for f, c := range run.perFamily {
		cov["documents_"+f] = c
	}
	return &CustomResult{Coverage: cov, Violations: run.found}
}

func checkC15(tier string, seed int64) *CustomResult {
	res := runSharded("c15", tier, shardCount())
	res.Coverage["rule"] = "YAML documents enumerated completely per family (F1 sparse max/guaranteed products on flat and nested trees; F2 user/group/wildcard limit resources on three levels; F3 queue and limit max applications on three levels; F4 names, case variants, structure, partitions; F5 placement rule x create x parent rule x filter and rule pairs; F6 every ACL string up to the length bound over {u,g,',',' ','*',tab}; F7 quantities with units, child templates, properties, node sort policy, preemption flags). Every document is validated by the real code under map modes 1..8; every ACCEPTED document (= non-trivial, distinct by text) is checked against the reference hierarchy rules, loaded into a new scheduler, reloaded into a running scheduler and replaced by the base configuration again"
	return res
}

func init() {
	ShardFuncs["c15"] = c15Shard
	registerCheck(&CheckDef{Prop: "C15", Level: "exploration", Technique: "bounded exhaustive enumeration of configuration documents through the real validation and loaders against an independent transcription of the hierarchy rules", Custom: checkC15,
		Assumptions: []string{"the limit rules checked are the part common to both readings of 'within the same user's or wildcard's limit on every ancestor' (named limit on any ancestor; closest wildcard when no ancestor names the user)", "documents are generated from templates; arbitrary YAML syntax errors are outside the families"}})
}
