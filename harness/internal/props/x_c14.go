package props

import (
	"encoding/json"
	"fmt"
	"github.com/apache/yunikorn-core/pkg/common/security"
	"github.com/apache/yunikorn-core/pkg/scheduler/objects"
	"os"
	"runtime"
	"runtime/pprof"
	"sort"
	"strconv"
	"strings"
	"time"

	"github.com/apache/yunikorn-core/pkg/rmproxy/rmevent"
	"github.com/apache/yunikorn-core/pkg/scheduler/ugm"
	"github.com/apache/yunikorn-scheduler-interface/lib/go/si"

	"verif/harness/internal/ilv"
	"verif/harness/internal/mc"
	"verif/harness/internal/world"
)

// C14: concurrent operation is deadlock free and preserves the invariants (engine E2). A scenario is a sequential
// prefix (driven like in E1) that prepares a state of the REAL core, followed by 2-3 thread bodies, each the body of
// one of the core's goroutines (scheduling cycle, RM event handler, config reload, timer, REST reader, cleaner).
// The interleaving explorer enumerates every schedule of these bodies at lock granularity up to a preemption bound.
// Oracles: deadlock (no enabled thread), panic, and the state invariants of C01/C03/C05/C09/C11 on the settled final
// state. Data races on unlocked accesses are outside this engine (see the race pass).

type c14Scenario struct {
	Name    string
	Scn     *world.Scenario
	Threads [][]world.Op // ops executed by each thread, without shim-model bookkeeping
}

// rawOp returns the closure that performs one op on the real core exactly like World.Apply does, but without the
// settle barrier and without touching the shim model (several of them run concurrently).
func rawOp(w *world.World, o world.Op) func() {
	scn := w.Scn
	switch o.K {
	case "SCHEDULE":
		return func() { w.CC.VerifSchedule() }
	case "RELEASE":
		ks := w.Model.Keys[o.A]
		app := ""
		if ks != nil {
			app = ks.App
		} else if spec := scn.Ask(o.A); spec != nil {
			app = spec.App
		}
		return func() {
			w.SendRawAlloc(&si.AllocationRequest{RmID: world.RMID, Releases: &si.AllocationReleasesRequest{AllocationsToRelease: []*si.AllocationRelease{
				{PartitionName: world.PartitionName, ApplicationID: app, AllocationKey: o.A, TerminationType: si.TerminationType_STOPPED_BY_RM}}}})
		}
	case "CONFIRM_ALL":
		pend := append([]world.PendingRel{}, w.Model.Pending...)
		return func() {
			for _, p := range pend {
				w.SendRawAlloc(&si.AllocationRequest{RmID: world.RMID, Releases: &si.AllocationReleasesRequest{AllocationsToRelease: []*si.AllocationRelease{
					{PartitionName: world.PartitionName, ApplicationID: p.App, AllocationKey: p.Key, TerminationType: si.TerminationType(si.TerminationType_value[p.Term])}}}})
			}
		}
	case "ASK", "ASK_BOUND":
		spec := scn.Ask(o.A)
		node := ""
		if o.K == "ASK_BOUND" {
			node = spec.BoundNode
		}
		return func() {
			w.SendRawAlloc(&si.AllocationRequest{RmID: world.RMID, Allocations: []*si.Allocation{w.RawAsk(spec, spec.Res, node)}})
		}
	case "APP_ADD":
		spec := scn.App(o.A)
		return func() {
			w.SendRawApp(&si.ApplicationRequest{RmID: world.RMID, New: []*si.AddApplicationRequest{w.RawApp(spec, false)}})
		}
	case "APP_REMOVE":
		return func() {
			w.SendRawApp(&si.ApplicationRequest{RmID: world.RMID, Remove: []*si.RemoveApplicationRequest{{ApplicationID: o.A, PartitionName: world.PartitionName}}})
		}
	case "NODE_ADD":
		n := scn.Node(o.A)
		return func() {
			w.SendRawNode(&si.NodeRequest{RmID: world.RMID, Nodes: []*si.NodeInfo{w.RawNode(n.ID, si.NodeInfo_CREATE, n.Cap)}})
		}
	case "NODE_REMOVE", "NODE_DRAIN":
		action := si.NodeInfo_DECOMISSION
		if o.K == "NODE_DRAIN" {
			action = si.NodeInfo_DRAIN_NODE
		}
		return func() {
			w.SendRawNode(&si.NodeRequest{RmID: world.RMID, Nodes: []*si.NodeInfo{w.RawNode(o.A, action, nil)}})
		}
	case "CONFIG":
		return func() {
			c := make(chan *rmevent.Result, 2)
			w.CC.VerifConfigUpdate(&rmevent.RMConfigUpdateEvent{RmID: world.RMID, PolicyGroup: world.PolicyGroup, Config: scn.Configs[o.N], ExtraConfig: scn.ExtraConfig, Channel: c})
			<-c
		}
	case "REMOVE_PARTITION":
		return func() {
			c := make(chan *rmevent.Result, 2)
			w.CC.VerifRemovePartitions(&rmevent.RMPartitionsRemoveEvent{RmID: world.RMID, Channel: c})
			<-c
		}
	case "TIMER_PH":
		return func() {
			if pc := w.CC.GetPartition(world.PartitionName); pc != nil {
				if app := pc.GetApplication(o.A); app != nil {
					app.VerifFirePlaceholderTimer()
				}
			}
		}
	case "TIMER_STATE":
		return func() {
			if pc := w.CC.GetPartition(world.PartitionName); pc != nil {
				if app := pc.GetApplication(o.A); app != nil {
					app.VerifFireStateTimer()
				}
			}
		}
	case "QUOTA_PREEMPT":
		return func() { w.CC.VerifQuotaPreemption() }
	case "CLEAN_QUEUES":
		return func() {
			if pc := w.CC.GetPartition(world.PartitionName); pc != nil {
				pc.VerifCleanQueues()
			}
		}
	case "HEALTH":
		return func() { w.CC.VerifHealthCheck() }
	case "OUTSTANDING":
		return func() { w.CC.VerifInspectOutstanding() }
	case "CLEAN_EXPIRED":
		return func() {
			if pc := w.CC.GetPartition(world.PartitionName); pc != nil {
				pc.VerifCleanExpired()
			}
		}
	case "REST":
		// what the REST handlers read
		return func() {
			pc := w.CC.GetPartition(world.PartitionName)
			if pc == nil {
				return
			}
			_ = pc.GetPartitionQueues()
			for _, app := range pc.GetApplications() {
				_ = app.GetApplicationSummary(world.RMID)
				_ = app.GetAllAllocations()
				_ = app.GetStateLog()
			}
			for _, n := range pc.GetNodes() {
				_ = n.GetAvailableResource()
				_ = n.GetYunikornAllocations()
				_ = n.GetReservations()
			}
			for _, ut := range ugm.GetUserManager().GetUserTrackers() {
				_ = ut.GetResourceUsageDAOInfo()
			}
			for _, gt := range ugm.GetUserManager().GetGroupTrackers() {
				_ = gt.GetResourceUsageDAOInfo()
			}
			_ = pc.GetPlacementRules()
			for _, app := range pc.GetRejectedApplications() {
				_ = app.GetApplicationSummary(world.RMID)
			}
			for _, app := range pc.GetCompletedApplications() {
				_ = app.GetApplicationSummary(world.RMID)
			}
		}
	}
	panic("c14: unknown concurrent op " + o.K)
}

const c14Conf = `partitions:
  - name: default
    placementrules:
      - name: provided
        create: true
    queues:
      - name: root
        submitacl: "*"
        queues:
          - name: a
            resources:
              guaranteed: {memory: 2}
          - name: p
            parent: true
            queues:
              - name: b
                resources:
                  max: {memory: 4}
`

const c14Conf2 = `partitions:
  - name: default
    placementrules:
      - name: provided
        create: true
    queues:
      - name: root
        submitacl: "*"
        queues:
          - name: a
            resources:
              max: {memory: 3}
          - name: p
            parent: true
            properties:
              application.sort.policy: fair
            queues:
              - name: c
`

// without root.p: the parent p and its child b are marked for removal
const c14Conf3 = `partitions:
  - name: default
    placementrules:
      - name: provided
        create: true
    queues:
      - name: root
        submitacl: "*"
        queues:
          - name: a
            resources:
              guaranteed: {memory: 2}
`

const c14Conf4 = `partitions:
  - name: default
    placementrules:
      - name: provided
        create: true
    queues:
      - name: root
        submitacl: "*"
        queues:
          - name: a
            resources:
              guaranteed: {memory: 1}
`

func c14Base() *world.Scenario {
	return &world.Scenario{
		Name:    "c14",
		Configs: []string{c14Conf, c14Conf2},
		Nodes:   []world.NodeSpec{{ID: "n1", Cap: world.M(3)}, {ID: "n2", Cap: world.M(2)}},
		Apps: []world.AppSpec{
			{ID: "app1", Queue: "root.a", User: "u1", Groups: []string{"g1"}},
			{ID: "app2", Queue: "root.p.b", User: "u2", Groups: []string{"g2"}},
			{ID: "app3", Queue: "root.p.dyn", User: "u3", Groups: []string{"g1"}},
			{ID: "gapp", Queue: "root.p.b", User: "u2", Groups: []string{"g2"}, Gang: "Soft", PlaceholderAsk: world.M(2)},
			{ID: "bad", Queue: "root.a.not.a.parent", User: "u1", Groups: []string{"g1"}},
		},
		Asks: []world.AskSpec{
			{Key: "a1", App: "app1", Res: world.M(1), Create: 1001},
			{Key: "a2", App: "app1", Res: world.M(2), Create: 1002},
			{Key: "b1", App: "app2", Res: world.M(1), Create: 1003},
			{Key: "b2", App: "app2", Res: world.M(1), Create: 1004, BoundNode: "n2"},
			{Key: "c1", App: "app3", Res: world.M(1), Create: 1005},
			{Key: "p1", App: "gapp", Res: world.M(1), Placeholder: true, TaskGroup: "tg", Create: 1006},
			{Key: "r1", App: "gapp", Res: world.M(1), TaskGroup: "tg", Create: 1007},
		},
		Alphabet: []string{"SCHEDULE", "NODE_ADD", "APP_ADD", "ASK", "ASK_BOUND", "RELEASE", "CONFIRM", "CONFIG", "CLEAN_QUEUES", "APP_REMOVE"},
	}
}

// c14Goroutine names the production goroutine that executes an op. The core runs exactly one goroutine of each
// kind (scheduler.StartService: one handler each for allocation/application events, node events and infrastructure
// events, one scheduling loop, ...), so a scenario never runs two threads of the same kind: their interleavings
// do not exist in production. Timers and REST handlers are goroutines of their own.
func c14Goroutine(k string) string {
	switch k {
	case "ASK", "ASK_BOUND", "RELEASE", "CONFIRM_ALL", "APP_ADD", "APP_REMOVE":
		return "allocation and application event handler"
	case "NODE_ADD", "NODE_REMOVE", "NODE_DRAIN":
		return "node event handler"
	case "CONFIG", "REMOVE_PARTITION":
		return "infrastructure event handler"
	case "SCHEDULE":
		return "scheduling loop"
	case "QUOTA_PREEMPT":
		return "quota preemption loop"
	case "CLEAN_QUEUES":
		return "partition manager (queue cleaner)"
	case "CLEAN_EXPIRED":
		return "partition manager (expired application cleaner)"
	case "OUTSTANDING":
		return "outstanding request inspector"
	case "HEALTH":
		return "health checker"
	}
	return "" // TIMER_PH, TIMER_STATE, REST: any number
}

func c14Scenarios() []c14Scenario {
	all := c14ScenariosUnchecked()
	for _, sc := range all {
		seen := map[string]int{}
		for i, ops := range sc.Threads {
			kinds := map[string]bool{}
			for _, o := range ops {
				kinds[c14Goroutine(o.K)] = true
			}
			if len(kinds) != 1 {
				panic("c14: thread mixes goroutine kinds in " + sc.Name)
			}
			for k := range kinds {
				if k == "" {
					continue
				}
				if j, dup := seen[k]; dup {
					panic(fmt.Sprintf("c14: scenario %s runs the %s twice (threads %d and %d)", sc.Name, k, j, i))
				}
				seen[k] = i
			}
		}
	}
	return all
}

func c14ScenariosUnchecked() []c14Scenario {
	mk := func(name string, prefix []world.Op, threads ...[]world.Op) c14Scenario {
		s := c14Base()
		s.Name = "c14-" + name
		s.Prefix = prefix
		return c14Scenario{Name: name, Scn: s, Threads: threads}
	}
	setup := []world.Op{op("NODE_ADD", "n1"), op("NODE_ADD", "n2"), op("APP_ADD", "app1"), op("APP_ADD", "app2"), op("ASK", "a1"), op("SCHEDULE"), op("ASK", "a2"), op("ASK", "b1")}
	o := func(k string, a ...string) []world.Op { return []world.Op{op(k, a...)} }
	return []c14Scenario{
		mk("S1-schedule-release-noderemove", setup, o("SCHEDULE"), []world.Op{op("RELEASE", "a1"), op("APP_REMOVE", "app1")}, o("NODE_REMOVE", "n1")),
		mk("S2-schedule-reload-rest", setup, o("SCHEDULE"), []world.Op{{K: "CONFIG", N: 1}}, o("REST")),
		mk("S3-swap-timeout-confirm", []world.Op{op("NODE_ADD", "n1"), op("APP_ADD", "gapp"), op("ASK", "p1"), op("SCHEDULE"), op("ASK", "r1"), op("SCHEDULE")},
			o("CONFIRM_ALL"), o("TIMER_PH", "gapp"), o("SCHEDULE")),
		mk("S5-partition-removal-schedule", setup, o("REMOVE_PARTITION"), o("SCHEDULE")),
		mk("S6-cleanup-dynamic-queue", append(append([]world.Op{}, setup...), op("APP_ADD", "app3"), op("APP_REMOVE", "app3")), o("CLEAN_QUEUES"), o("APP_ADD", "app3"), o("SCHEDULE")),
		mk("S7-rest-vs-allocation", setup, o("REST"), o("SCHEDULE"), o("RELEASE", "a1")),
		mk("S8-user-tracker-creation", []world.Op{op("NODE_ADD", "n1"), op("NODE_ADD", "n2"), op("APP_ADD", "app2"), op("ASK", "b1")}, o("SCHEDULE"), o("ASK_BOUND", "b2"), o("REST")),
		mk("S9-health-reload", setup, o("HEALTH"), []world.Op{{K: "CONFIG", N: 1}}, o("SCHEDULE")),
		mkReserve("S10-reserve-vs-ask-removal"),
		mkPreempt("S4-preemption-release-rest"),
		mkPreempt5("S13-multi-victim-preemption-release"),
		mkPreemptPH("S14-placeholder-victims-vs-timeout"),
		mkQuotaPreempt("S18-quota-preemption-vs-schedule-release"),
		mk("S19-node-registration-vs-schedule", []world.Op{op("NODE_ADD", "n1"), op("APP_ADD", "app1"), op("APP_ADD", "app2"), op("ASK", "a1"), op("ASK", "a2"), op("ASK", "b1")},
			o("NODE_ADD", "n2"), o("SCHEDULE"), o("REST")),
		mk("S20-outstanding-inspection-vs-release", []world.Op{op("NODE_ADD", "n2"), op("APP_ADD", "app1"), op("APP_ADD", "app2"), op("ASK", "a2"), op("SCHEDULE"), op("ASK", "a1"), op("ASK", "b1")},
			o("OUTSTANDING"), []world.Op{op("RELEASE", "a1"), op("RELEASE", "b1")}, o("SCHEDULE")),
		mkExpired("S21-expired-cleanup-vs-resubmission"),
		mkHardGang("S22-hard-gang-timeout-vs-real-ask"),
		mk("S23-drain-vs-schedule", setup, o("NODE_DRAIN", "n1"), o("SCHEDULE"), o("REST")),
		mk("S24-application-removal-vs-placeholder-timeout", []world.Op{op("NODE_ADD", "n1"), op("APP_ADD", "gapp"), op("ASK", "p1"), op("SCHEDULE"), op("ASK", "r1")},
			o("APP_REMOVE", "gapp"), o("TIMER_PH", "gapp"), o("SCHEDULE")),
		mk("S25-queue-removal-vs-submission", []world.Op{op("NODE_ADD", "n1"), op("NODE_ADD", "n2")},
			[]world.Op{{K: "CONFIG", N: 1}}, []world.Op{op("APP_ADD", "app2"), op("ASK", "b1")}, o("SCHEDULE")),
		mk("S26-two-cycles-vs-ask-release-sequence", setup[:6], []world.Op{op("SCHEDULE"), op("SCHEDULE")}, []world.Op{op("ASK", "a2"), op("RELEASE", "a1"), op("RELEASE", "a2")}, o("REST")),
		mk("S28-two-cycles-vs-submission-vs-reload", setup, []world.Op{op("SCHEDULE"), op("SCHEDULE")}, []world.Op{op("APP_ADD", "app3"), op("ASK", "c1")}, []world.Op{{K: "CONFIG", N: 1}}),
		mkQueueMaxRace("S29-queue-max-commit-vs-rm-placed-allocation"),
		mkNodeRace("S30-node-commit-vs-rm-placed-allocation"),
		mkQueueRemoval("S31-parent-queue-removal-vs-cleaner"),
		mkACLRace("S32-submission-creating-a-queue-vs-acl-reload"),
		mkMaxApps("S15-maxapps-restart-vs-schedule"),
		mkLifecycle("S16-completing-timer-vs-new-ask"),
		mkUGMReload("S17-limits-reload-vs-schedule"),
		mk("S11-rejected-application-rest", setup, o("APP_ADD", "bad"), o("REST"), o("SCHEDULE")),
		mk("S12-reload-dynamic-queue-cleanup", setup, []world.Op{{K: "CONFIG", N: 1}}, o("APP_ADD", "app3"), o("CLEAN_QUEUES")),
	}
}

// the scheduling cycle decides to reserve a node for an ask while the RM withdraws that ask
func mkReserve(name string) c14Scenario {
	s := scnReserveBind("c14-" + name)
	s.Prefix = s.Prefix[:len(s.Prefix)-3] // up to ASK(a2) SCHEDULE: both nodes hold one allocation, b1 not asked yet
	s.Prefix = append(s.Prefix, op("ASK", "b1"))
	return c14Scenario{Name: name, Scn: s, Threads: [][]world.Op{{op("SCHEDULE")}, {op("RELEASE", "b1")}, {op("REST")}}}
}

// queue preemption decision || release of a victim candidate || REST reads
func mkPreempt(name string) c14Scenario {
	s := scnPreempt("c14-"+name, true)
	s.Prefix = append(s.Prefix, op("ASK", "a1"))
	return c14Scenario{Name: name, Scn: s, Threads: [][]world.Op{{op("SCHEDULE")}, {op("RELEASE", "b1")}, {op("REST")}}}
}

// a preemption that needs three victims || release of two of the victim candidates (one handler, in order) || REST reads
func mkPreempt5(name string) c14Scenario {
	s := scnPreemptG5("c14-" + name)
	s.Prefix = append(s.Prefix, op("ASK", "a2"))
	return c14Scenario{Name: name, Scn: s, Threads: [][]world.Op{{op("SCHEDULE")}, {op("RELEASE", "b3"), op("RELEASE", "b1")}, {op("REST")}}}
}

// quota preemption (the queue's max was lowered below its usage) || scheduling cycle || release of one of the tasks
func mkQuotaPreempt(name string) c14Scenario {
	s := scnPreempt("c14-"+name, true)
	s.Prefix = append(s.Prefix, world.Op{K: "CONFIG", N: 1}, op("ASK", "a1"))
	return c14Scenario{Name: name, Scn: s, Threads: [][]world.Op{{op("QUOTA_PREEMPT")}, {op("SCHEDULE")}, {op("RELEASE", "b2")}}}
}

// a terminated application is cleaned up || the same application id is submitted again || REST reads
func mkExpired(name string) c14Scenario {
	s := scnLifecycleLate("c14-" + name)
	s.Prefix = append(s.Prefix, op("RELEASE", "a1"), op("TIMER_STATE", "app1"), op("TIMER_STATE", "app1"))
	return c14Scenario{Name: name, Scn: s, Threads: [][]world.Op{{op("CLEAN_EXPIRED")}, {op("APP_ADD", "app1")}, {op("REST")}}}
}

// Hard gang: placeholder timeout (the application fails) || a real ask arrives || scheduling cycle
func mkHardGang(name string) c14Scenario {
	s := scnGang("c14-"+name, "Hard")
	s.Prefix = append(s.Prefix, op("SCHEDULE"), op("ASK", "p2"))
	return c14Scenario{Name: name, Scn: s, Threads: [][]world.Op{{op("TIMER_PH", "gapp")}, {op("ASK", "r1")}, {op("SCHEDULE")}}}
}

// the scheduling cycle fills a leaf up to its maximum || the RM reports an allocation it placed itself in the same leaf
func mkQueueMaxRace(name string) c14Scenario {
	conf := `partitions:
  - name: default
    queues:
      - name: root
        submitacl: "*"
        queues:
          - name: p
            parent: true
            resources:
              max: {memory: 6}
            queues:
              - name: a
                resources:
                  max: {memory: 3}
`
	s := &world.Scenario{
		Name:    "c14-" + name,
		Configs: []string{conf},
		Nodes:   []world.NodeSpec{{ID: "n1", Cap: world.M(10)}},
		// the RM-placed allocation belongs to another application of the same leaf: the scheduling cycle holds the lock of
		// the application it allocates for
		Apps: []world.AppSpec{{ID: "app1", Queue: "root.p.a", User: "u1", Groups: []string{"g1"}}, {ID: "app2", Queue: "root.p.a", User: "u2", Groups: []string{"g2"}}},
		Asks: []world.AskSpec{
			{Key: "a1", App: "app1", Res: world.M(1), Create: 1001},
			{Key: "a2", App: "app1", Res: world.M(2), Create: 1002},
			{Key: "a3", App: "app2", Res: world.M(1), Create: 1003, BoundNode: "n1"},
		},
		Alphabet: []string{"SCHEDULE", "ASK", "ASK_BOUND", "RELEASE"},
		Prefix:   []world.Op{op("NODE_ADD", "n1"), op("APP_ADD", "app1"), op("APP_ADD", "app2"), op("ASK", "a1"), op("SCHEDULE"), op("ASK", "a2")},
	}
	return c14Scenario{Name: name, Scn: s, Threads: [][]world.Op{{op("SCHEDULE")}, {op("ASK_BOUND", "a3")}, {op("REST")}}}
}

// the scheduling cycle fills a node || the RM reports an allocation it placed itself on the same node
func mkNodeRace(name string) c14Scenario {
	sc := mkQueueMaxRace(name)
	s := sc.Scn
	s.Configs = []string{strings.ReplaceAll(strings.ReplaceAll(s.Configs[0], "max: {memory: 6}", "max: {memory: 60}"), "max: {memory: 3}", "max: {memory: 30}")}
	s.Nodes = []world.NodeSpec{{ID: "n1", Cap: world.M(3)}}
	return sc
}

// a reload drops a parent queue and its child (both are draining); the next reload marks them again || the queue cleaner
// removes the drained child || REST reads
func mkQueueRemoval(name string) c14Scenario {
	s := c14Base()
	s.Name = "c14-" + name
	s.Configs = []string{c14Conf, c14Conf2, c14Conf3, c14Conf4}
	s.Prefix = []world.Op{op("NODE_ADD", "n1"), {K: "CONFIG", N: 2}}
	return c14Scenario{Name: name, Scn: s, Threads: [][]world.Op{{{K: "CONFIG", N: 3}}, {op("CLEAN_QUEUES")}, {op("REST")}}}
}

// an application whose placement creates a dynamic queue || a reload that takes the user's access to the parent away
func mkACLRace(name string) c14Scenario {
	conf := func(acl string) string {
		return `partitions:
  - name: default
    placementrules:
      - name: provided
        create: true
    queues:
      - name: root
        queues:
          - name: tenants
            parent: true
            submitacl: "` + acl + `"
          - name: other
            submitacl: "*"
`
	}
	s := &world.Scenario{
		Name:    "c14-" + name,
		Configs: []string{conf("u1"), conf("u2")},
		Nodes:   []world.NodeSpec{{ID: "n1", Cap: world.M(4)}},
		Apps: []world.AppSpec{
			{ID: "dynapp", Queue: "root.tenants.u1q", User: "u1", Groups: []string{"g1"}},
			{ID: "app2", Queue: "root.other", User: "u2", Groups: []string{"g2"}},
		},
		Asks:     []world.AskSpec{{Key: "d1", App: "dynapp", Res: world.M(1), Create: 1001}},
		Alphabet: []string{"SCHEDULE", "APP_ADD", "ASK", "CONFIG"},
		Prefix:   []world.Op{op("NODE_ADD", "n1"), op("APP_ADD", "app2")},
	}
	return c14Scenario{Name: name, Scn: s, Threads: [][]world.Op{{op("APP_ADD", "dynapp")}, {{K: "CONFIG", N: 1}}, {op("REST")}}}
}

// max applications: the scheduling cycle starts a waiting application || the Completing one is restarted by a new ask ||
// its completing timer fires
func mkMaxApps(name string) c14Scenario {
	s := scnMaxAppsRestart("c14-" + name)
	s.Prefix = []world.Op{op("NODE_ADD", "n1"), op("APP_ADD", "app1"), op("ASK", "a1"), op("SCHEDULE"), op("RELEASE", "a1"), op("APP_ADD", "app2"), op("ASK", "b1")}
	return c14Scenario{Name: name, Scn: s, Threads: [][]world.Op{{op("SCHEDULE")}, {op("ASK", "a2")}, {op("TIMER_STATE", "app1"), op("TIMER_STATE", "app1")}}}
}

// life cycle: completing timer || new ask for the same application || REST reads
func mkLifecycle(name string) c14Scenario {
	s := scnLifecycleLate("c14-" + name)
	s.Prefix = append(s.Prefix, op("RELEASE", "a1"))
	// the timer goroutine fires twice: a state timer that was armed again by what the first callback did runs as well
	return c14Scenario{Name: name, Scn: s, Threads: [][]world.Op{{op("TIMER_STATE", "app1"), op("TIMER_STATE", "app1")}, {op("ASK", "a2")}, {op("REST")}}}
}

// user and group limits: scheduling cycle || reload to a document with other limits || release
func mkUGMReload(name string) c14Scenario {
	s := scnUGM("c14-"+name, []string{c05Layouts[2], c05Layouts[8]}, nil,
		[]world.Op{op("NODE_ADD", "n1"), op("APP_ADD", "app1"), op("ASK", "a1"), op("SCHEDULE"), op("APP_ADD", "app3"), op("ASK", "c1"), op("ASK", "a2")})
	return c14Scenario{Name: name, Scn: s, Threads: [][]world.Op{{op("SCHEDULE")}, {{K: "CONFIG", N: 1}}, {op("RELEASE", "a1")}}}
}

// a preemption whose victims are placeholders || the placeholder timeout of their application || REST reads
func mkPreemptPH(name string) c14Scenario {
	s := scnPreemptPH("c14-" + name)
	s.Prefix = append(s.Prefix, op("ASK", "a2"))
	return c14Scenario{Name: name, Scn: s, Threads: [][]world.Op{{op("SCHEDULE")}, {op("TIMER_PH", "appb")}, {op("REST")}}}
}

type c14Run struct {
	executions, maxPoints, lockOps int
	outcomes                       map[string]bool
	found                          []mc.Found
	fpSeen                         map[string]int
	harness                        []string
	complete                       bool
	perScenario                    map[string]int
	samples                        []interface{}
	tainted                        bool
	retries                        int
	retryWhy                       []string
	nondet                         int
	incomplete                     []string
}

type c14Replay struct {
	Scenario string `json:"scenario"`
	Schedule string `json:"schedule"` // run-length encoded choices: "1 0x177 2 1"
}

func encodeChoices(c []int) string {
	var parts []string
	for i := 0; i < len(c); {
		j := i
		for j < len(c) && c[j] == c[i] {
			j++
		}
		if j-i > 1 {
			parts = append(parts, fmt.Sprintf("%dx%d", c[i], j-i))
		} else {
			parts = append(parts, fmt.Sprint(c[i]))
		}
		i = j
	}
	return strings.Join(parts, " ")
}

func decodeChoices(s string) []int {
	var out []int
	for _, p := range strings.Fields(s) {
		v, n := 0, 1
		if i := strings.Index(p, "x"); i >= 0 {
			fmt.Sscanf(p[:i], "%d", &v)
			fmt.Sscanf(p[i+1:], "%d", &n)
		} else {
			fmt.Sscanf(p, "%d", &v)
		}
		for k := 0; k < n; k++ {
			out = append(out, v)
		}
	}
	return out
}

// execOnce builds a fresh world, runs the prefix sequentially and the thread bodies under the interleaving scheduler.
// c14Probe looks at the books of the queues and nodes at every scheduling point of an execution (all goroutines of the core
// are parked, the look takes no lock) and so turns an execution into a sequence of steps, each by one thread. It carries
// the rules that are about the moment of a scheduling decision, which no final state can show:
//   - a step of the scheduling loop that raises the usage of a queue leaves it at or below the queue's maximum
//     (C02; allocations the RM placed itself are added by the event handler thread and may exceed it);
//   - a step of the scheduling loop that raises the allocated resources of a node leaves its available resources
//     non-negative (C01).
type c14Probe struct {
	queues  []*objects.Queue
	nodes   []*objects.Node
	lastQ   []map[string]int64
	lastN   []map[string]int64
	sched   map[int]bool // thread ids that are the scheduling loop
	parked  string       // with ilv.Trace: where the scheduling loop was parked when another thread last ran
	step    int
	found   []c14ProbeHit
	steps   int
	raising int
	root    *objects.Queue
	known   map[*objects.Queue]bool           // queues seen so far (configured ones and the dynamic ones as they appear)
	adders  map[int]map[string]*world.AppSpec // thread id -> queue path (lower case) -> application it submits there
}

type c14ProbeHit struct {
	rule, object, detail, where string
}

func newC14Probe(w *world.World, sc c14Scenario) *c14Probe {
	p := &c14Probe{sched: map[int]bool{}}
	pc := w.CC.GetPartition(world.PartitionName)
	if pc == nil {
		return nil
	}
	var walk func(q *objects.Queue)
	walk = func(q *objects.Queue) {
		p.queues = append(p.queues, q)
		for _, c := range q.GetCopyOfChildren() {
			walk(c)
		}
	}
	p.root = pc.GetQueue("root")
	walk(p.root)
	p.known = map[*objects.Queue]bool{}
	for _, q := range p.queues {
		p.known[q] = true
	}
	p.adders = map[int]map[string]*world.AppSpec{}
	for i, ops := range sc.Threads {
		for _, o := range ops {
			if o.K == "APP_ADD" {
				if spec := sc.Scn.App(o.A); spec != nil {
					if p.adders[i] == nil {
						p.adders[i] = map[string]*world.AppSpec{}
					}
					p.adders[i][strings.ToLower(spec.Queue)] = spec
				}
			}
		}
	}
	sort.Slice(p.queues, func(i, j int) bool { return p.queues[i].GetQueuePath() < p.queues[j].GetQueuePath() })
	p.nodes = pc.GetNodes()
	sort.Slice(p.nodes, func(i, j int) bool { return p.nodes[i].NodeID < p.nodes[j].NodeID })
	for i, ops := range sc.Threads {
		if len(ops) > 0 && ops[0].K == "SCHEDULE" {
			p.sched[i] = true
		}
	}
	for _, q := range p.queues {
		a, _ := q.VerifPeek()
		p.lastQ = append(p.lastQ, a)
	}
	for _, n := range p.nodes {
		a, _ := n.VerifPeek()
		p.lastN = append(p.lastN, a)
	}
	return p
}

func (p *c14Probe) onPoint(ran int) {
	p.steps++
	if ilv.Trace && !p.sched[ran] {
		for id := range p.sched {
			if wh := ilv.Where(id); wh != "" {
				p.parked = wh
			}
		}
	}
	for i, q := range p.queues {
		a, max := q.VerifPeek()
		if p.sched[ran] {
			for t, now := range a {
				if now > p.lastQ[i][t] {
					p.raising++
					if m, limited := max[t]; limited && now > m && q.QueuePath != "root" {
						p.found = append(p.found, c14ProbeHit{rule: "step-C02-scheduling-raised-queue-above-max", object: q.QueuePath, where: p.parked,
							detail: fmt.Sprintf("a step of the scheduling loop raised %s of queue %s from %d to %d, its maximum is %d", t, q.QueuePath, p.lastQ[i][t], now, m)})
					}
				}
			}
		}
		p.lastQ[i] = a
	}
	// a dynamic queue that appears through a step of the event handler that submits an application into it: the user has
	// submit access through the queue's parent chain at that moment (C17). The creation and its access check run under the
	// partition lock, and so does a reload, so no reload can get between the two.
	var scan func(q *objects.Queue)
	scan = func(q *objects.Queue) {
		for _, c := range q.VerifPeekChildren() {
			if !p.known[c] {
				p.known[c] = true
				if spec := p.adders[ran][c.QueuePath]; spec != nil {
					if !q.VerifPeekSubmitAccess(security.UserGroup{User: spec.User, Groups: spec.Groups}) {
						p.found = append(p.found, c14ProbeHit{rule: "step-C17-dynamic-queue-created-without-access", object: c.QueuePath, where: p.parked,
							detail: fmt.Sprintf("a step of the event handler created queue %s for application %s of user %s, who has no submit access through %s at that moment", c.QueuePath, spec.ID, spec.User, q.QueuePath)})
					}
				}
			}
			scan(c)
		}
	}
	scan(p.root)
	for i, n := range p.nodes {
		a, avail := n.VerifPeek()
		if p.sched[ran] {
			for t, now := range a {
				if now > p.lastN[i][t] && avail[t] < 0 {
					p.found = append(p.found, c14ProbeHit{rule: "step-C01-scheduling-overcommitted-node", object: n.NodeID, where: p.parked,
						detail: fmt.Sprintf("a step of the scheduling loop raised allocated %s of node %s from %d to %d, available is now %d", t, n.NodeID, p.lastN[i][t], now, avail[t])})
				}
			}
		}
		p.lastN[i] = a
	}
}

// c14Window names the part of the scheduling cycle in which the scheduling loop was parked while another thread ran
func c14Window(where string) string {
	if where == "" {
		return "unknown"
	}
	if strings.Contains(where, "TryIncAllocatedResource") {
		return "inside-TryIncAllocatedResource"
	}
	if strings.Contains(where, "TryAddAllocation") || strings.Contains(where, "addAllocationInternal") {
		return "inside-node-add"
	}
	for _, fn := range []string{"tryNode:", "tryNodes:", "tryReservedAllocate", "tryPlaceholderAllocate", "tryAllocate:", "TryAllocate:", "allocate:"} {
		if i := strings.Index(where, fn); i >= 0 {
			return "before-commit-in-" + strings.TrimSuffix(fn, ":")
		}
	}
	return "elsewhere"
}

// c14Baseline is the number of goroutines of this process while no world exists. The settle barrier of the
// interleaving scheduler counts goroutines, so a goroutine of the previous world that is still on its way out while the
// next execution starts would make the barrier open one goroutine early (seen as "replay divergence" under load):
// every execution therefore starts only after the count is back at the baseline.
var c14Baseline = -1
var c14Timing = os.Getenv("VERIF_TIMING") != ""

func c14WaitBaseline(scn *world.Scenario) {
	if c14Baseline < 0 {
		// the first world of a process starts goroutines that stay (lazily initialised singletons of the core): build
		// and drop one world before measuring
		if w, err := world.New(scn); err == nil {
			w.Close()
		}
		last, stable := runtime.NumGoroutine(), 0
		for stable < 20 {
			time.Sleep(500 * time.Microsecond)
			if n := runtime.NumGoroutine(); n == last {
				stable++
			} else {
				last, stable = n, 0
			}
		}
		c14Baseline = last
		return
	}
	deadline := time.Now().Add(5 * time.Second)
	for runtime.NumGoroutine() > c14Baseline {
		if time.Now().After(deadline) {
			// goroutines that never end (a leak that is there to stay): they are part of the baseline from now on
			c14Baseline = runtime.NumGoroutine()
			if c14Timing {
				fmt.Fprintf(os.Stderr, "c14: baseline raised to %d\n", c14Baseline)
			}
			return
		}
		time.Sleep(50 * time.Microsecond)
	}
}

func c14Exec(sc c14Scenario, prefix []int) (*ilv.Result, string, []mc.Violation, string) {
	t0 := time.Now()
	c14WaitBaseline(sc.Scn)
	t1 := time.Now()
	w, err := world.New(sc.Scn)
	t2 := time.Now()
	defer func() {
		if c14Timing {
			fmt.Fprintf(os.Stderr, "c14 timing: baseline %v new %v rest %v\n", t1.Sub(t0), t2.Sub(t1), time.Since(t2))
		}
	}()
	if err != nil {
		return &ilv.Result{Harness: "world: " + err.Error()}, "", nil, ""
	}
	var bodies []func()
	var names []string
	for i, ops := range sc.Threads {
		var fs []func()
		var nm []string
		for _, o := range ops {
			fs = append(fs, rawOp(w, o))
			nm = append(nm, o.String())
		}
		bodies = append(bodies, func() {
			for _, f := range fs {
				f()
			}
		})
		names = append(names, fmt.Sprintf("T%d:%s", i, strings.Join(nm, "+")))
	}
	preSnap := w.Snapshot()
	var probe *c14Probe
	if !c14NoProbe {
		probe = newC14Probe(w, sc)
	}
	if probe != nil {
		ilv.OnPoint = probe.onPoint
	}
	t3 := time.Now()
	nWorld := runtime.NumGoroutine() // this goroutine, the process baseline and what the world keeps running
	res := ilv.Run(bodies, names, prefix, 20*time.Second)
	if c14Timing {
		fmt.Fprintf(os.Stderr, "c14 timing: run %v points %d\n", time.Since(t3), len(res.Points))
	}
	ilv.OnPoint = nil
	if probe != nil {
		c14ProbeSteps += probe.steps
		c14ProbeRaising += probe.raising
	}
	if res.Deadlock != "" || res.Harness != "" {
		// the instance is poisoned (goroutines blocked for ever): it is not closed, the caller stops using this process
		return res, "deadlock-or-harness", nil, ""
	}
	// settle (goroutines the bodies started and nobody waited for), then the invariants on the final state
	deadline := time.Now().Add(10 * time.Second)
	for spins := 0; runtime.NumGoroutine() > nWorld && time.Now().Before(deadline); spins++ {
		if spins < 200 {
			runtime.Gosched()
		} else {
			time.Sleep(100 * time.Microsecond)
		}
	}
	outbound := w.Rec.Drain()
	for _, ops := range sc.Threads {
		for _, o := range ops {
			if o.K == "CONFIG" {
				w.Model.Config = o.N // the documents of the scenarios are valid: the reload is accepted
			}
		}
	}
	// what the bodies submitted and the core still holds is something the shim knows of (the terminal rule of C03
	// "nothing the shim knows of is left => every ledger is zero" must not fire for it)
	if pc := w.CC.GetPartition(world.PartitionName); pc != nil {
		for _, ops := range sc.Threads {
			for _, o := range ops {
				if o.K != "ASK" && o.K != "ASK_BOUND" {
					continue
				}
				if spec := sc.Scn.Ask(o.A); spec != nil && w.Model.Keys[o.A] == nil {
					if app := pc.GetApplication(spec.App); app != nil && app.GetAllocationAsk(o.A) != nil {
						w.Model.Keys[o.A] = &world.KeyState{App: spec.App, State: "ask", Ph: spec.Placeholder}
						if o.K == "ASK_BOUND" {
							// placed by the RM itself: the node and the queue were forced (as World.Apply records it)
							w.Model.Keys[o.A].State, w.Model.Keys[o.A].Node = "bound", spec.BoundNode
							w.Mem["forced:"+spec.BoundNode] = "1"
							w.Mem["forcedq:"+spec.App] = "1"
						}
					}
				}
			}
		}
	}
	final := w.Snapshot()
	st := &world.Step{Op: world.Op{K: "CONCURRENT"}}
	var viol []mc.Violation
	counts := map[string]int{}
	for _, m := range []mc.Monitor{monC01(), monC03(), monC09(), monC11(), monC05()} {
		for _, x := range m.Step(sc.Scn, final, st, final, counts) {
			viol = append(viol, v("C14", "final-state-"+x.Prop+"-"+x.Rule, sc.Name, "after the concurrent run of %v: %s", names, x.Detail))
		}
	}
	// rules about the moment of a decision, judged step by step (see c14Probe)
	if probe != nil && len(probe.found) > 0 {
		hits := probe.found
		if !ilv.Trace {
			// run the same schedule once more with call stacks to name the window in which the other thread got in
			ilv.Trace = true
			w.Close()
			_, _, traced, _ := c14Exec(sc, prefix)
			ilv.Trace = false
			var keep []mc.Violation
			for _, x := range traced {
				if strings.HasPrefix(x.Rule, "step-") {
					keep = append(keep, x)
				}
			}
			if len(keep) > 0 {
				// the traced run stands for this execution (same schedule, same verdicts)
				return c14ExecTracedResult(sc, prefix, keep)
			}
			return &ilv.Result{Harness: "replay divergence: a step verdict was not reproduced by the traced run of the same schedule"}, "deadlock-or-harness", nil, ""
		}
		seen := map[string]bool{}
		for _, h := range hits {
			win := c14Window(h.where)
			if seen[h.rule+h.object+win] {
				continue
			}
			seen[h.rule+h.object+win] = true
			viol = append(viol, v("C14", h.rule, sc.Name+":"+h.object+":"+win, "during the concurrent run of %v: %s; the other thread ran while the scheduling loop was %s", names, h.detail, win))
		}
	}
	// life cycle (C10) over the whole concurrent run: every logged transition is a documented one, what ends up Completed
	// has no work, terminated applications left the queue. The update messages are not judged here (two goroutines may
	// hand theirs to the shim in either order).
	stC10 := &world.Step{Op: world.Op{K: "CONCURRENT"}}
	for _, x := range monC10().Step(sc.Scn, preSnap, stC10, final, counts) {
		viol = append(viol, v("C14", "final-state-"+x.Prop+"-"+x.Rule, sc.Name, "after the concurrent run of %v: %s", names, x.Detail))
	}
	// every allocation that ends up marked for preemption was announced to the shim (C07: "announced exactly once")
	announced := map[string]int{}
	for _, o := range outbound {
		if o.T == "release" && o.Term == "PREEMPTED_BY_SCHEDULER" {
			announced[o.Key]++
		}
	}
	for _, p := range w.Model.Pending {
		if p.Term == "PREEMPTED_BY_SCHEDULER" {
			announced[p.Key]++
		}
	}
	for _, id := range sortedKeys(final.Apps) {
		a := final.Apps[id]
		if a.Where != "active" {
			continue
		}
		for _, k := range sortedKeys(a.Allocs) {
			if a.Allocs[k].Preempted && announced[k] == 0 {
				viol = append(viol, v("C14", "final-state-C07-preempted-without-announcement", sc.Name, "after the concurrent run of %v: allocation %s of %s is marked for preemption but no PREEMPTED_BY_SCHEDULER release was ever sent for it", names, k, id))
			}
			if announced[k] > 1 {
				viol = append(viol, v("C14", "final-state-C07-victim-announced-twice", sc.Name, "after the concurrent run of %v: victim %s was announced %d times", names, k, announced[k]))
			}
			if announced[k] > 0 && !a.Allocs[k].Preempted {
				// the shim was told to kill it and it is still there: it stays marked until the shim confirms, otherwise the
				// next preemption picks it again and the preempting resources of its queue are never given back
				viol = append(viol, v("C14", "final-state-C07-announced-victim-not-marked", sc.Name, "after the concurrent run of %v: allocation %s of %s was announced as PREEMPTED_BY_SCHEDULER, is still allocated, but is no longer marked for preemption", names, k, id))
				viol = append(viol, v("C14", "final-state-C08-preempting-ledger-victim-unmarked", sc.Name, "after the concurrent run of %v: the preempting resources of the queue of %s still count allocation %s, which was announced as a victim but is no longer marked (the release path only gives back what is marked)", names, id, k))
			}
		}
	}
	digest := world.Hash(world.J(map[string]interface{}{"q": final.Queues, "a": final.Apps, "n": final.Nodes, "u": final.Users, "g": final.Gone}))
	w.Close()
	return res, digest, viol, strings.Join(names, " || ")
}

func c14Shard(tier string, shard, n int) *CustomResult {
	return c14ShardSel(tier, shard, n, nil)
}

// c14ShardSel explores the scenarios selected by sel (nil = all)
func c14ShardSel(tier string, shard, n int, sel func(name string) bool) *CustomResult {
	run := &c14Run{outcomes: map[string]bool{}, fpSeen: map[string]int{}, complete: true, perScenario: map[string]int{}}
	bound := 1
	budget := 300 * time.Second
	if tier == "thorough" {
		bound = 2
		budget = 12 * time.Minute
	}
	if v, err := strconv.Atoi(os.Getenv("VERIF_C14_BUDGET_MIN")); err == nil && v > 0 {
		budget = time.Duration(v) * time.Minute // exploration beyond the registered budget (not used by the registered commands)
	}
	only := os.Getenv("C14_ONLY")
	scs := c14Scenarios()
	nsel := 0
	for _, sc := range scs {
		if sel == nil || sel(sc.Name) {
			nsel++
		}
	}
	// the two largest scenarios last: they inherit whatever the small ones left of the budget
	sort.SliceStable(scs, func(i, j int) bool {
		big := func(n string) bool { return strings.HasPrefix(n, "S1-") || strings.HasPrefix(n, "S2-") }
		return !big(scs[i].Name) && big(scs[j].Name)
	})
	began := time.Now()
	left := nsel
	for _, sc := range scs {
		if only != "" && !strings.Contains(sc.Name, only) || sel != nil && !sel(sc.Name) {
			continue
		}
		// the time a scenario does not use goes to the ones after it
		per := (budget - time.Since(began)) / time.Duration(left)
		if per < time.Second {
			per = time.Second
		}
		left--
		if run.tainted {
			run.complete = false
			break
		}
		sc := sc
		exec := func(prefix []int) (*ilv.Result, string, string) {
			res, digest, viol, _ := c14Exec(sc, prefix)
			for attempt := 0; attempt < 3 && res.Harness != "" && (strings.HasPrefix(res.Harness, "did not settle") || strings.HasPrefix(res.Harness, "replay divergence")); attempt++ {
				// harness trouble is never a verdict: give the stray goroutines time to finish and run the schedule again
				if len(run.retryWhy) < 20 {
					run.retryWhy = append(run.retryWhy, sc.Name+": "+res.Harness+" [schedule "+encodeChoices(prefix)+"]")
				}
				time.Sleep(200 * time.Millisecond)
				res, digest, viol, _ = c14Exec(sc, prefix)
				run.retries++
			}
			run.lockOps += res.LockOps
			verdict := ""
			switch {
			case res.Deadlock != "":
				verdict = "deadlock"
				run.add(sc, prefix, v("C14", "deadlock", sc.Name, "scenario %s: no thread can proceed: %s", sc.Name, res.Deadlock))
				run.tainted = true
			case len(res.Panics) > 0:
				verdict = "panic"
				run.add(sc, prefix, v("C14", "panic", sc.Name+":"+panicSite(res.Panics[0]), "scenario %s: %s", sc.Name, firstLine(res.Panics[0])))
			case len(viol) > 0:
				verdict = "invariant"
				for _, x := range viol {
					run.add(sc, prefix, x)
				}
			}
			if strings.HasPrefix(res.Harness, "replay divergence") {
				// the same prefix led to a different set of enabled threads three times in a row: a source of
				// nondeterminism outside the locks (e.g. the order in which parallel predicate checks report). The
				// subtree is not explored; this is reported in the evidence and makes the run non-exhaustive, it is
				// neither a verdict nor a reason to distrust the other executions (each is checked on its own).
				run.nondet++
				run.complete = false
				res.Harness = ""
				return res, "nondeterministic", ""
			}
			if res.Harness != "" {
				if res.Stacks != "" {
					fmt.Fprintln(os.Stderr, res.Harness+"\n"+res.Stacks)
				}
				run.harness = append(run.harness, sc.Name+": "+res.Harness)
				run.tainted = true
			}
			run.outcomes[sc.Name+"|"+digest] = true
			return res, digest, verdict
		}
		st := ilv.Explore(bound, shard, n, per, exec, func(prefix []int, r *ilv.Result, verdict string) {}, func() bool { return run.tainted })
		run.executions += st.Executions
		run.perScenario[sc.Name] += st.Executions
		if st.MaxPoints > run.maxPoints {
			run.maxPoints = st.MaxPoints
		}
		if !st.Complete {
			run.complete = false
			run.incomplete = append(run.incomplete, sc.Name)
		}
	}
	if len(run.samples) == 0 {
		run.samples = append(run.samples, c14Replay{Scenario: scs[0].Name, Schedule: "0x2 1"})
	}
	cov := map[string]interface{}{"executions": run.executions, "evaluations": run.executions, "lock_operations_scheduled": run.lockOps, "max_scheduling_points_in_one_execution": run.maxPoints,
		"exhaustive": run.complete, "samples": run.samples, "distinct_final_states": len(run.outcomes)}
	for k, c := range run.perScenario {
		cov["executions_"+k] = c
	}
	cov["scheduling_points_observed"] = c14ProbeSteps
	cov["scheduling_steps_raising_usage"] = c14ProbeRaising
	cov["executions_retried_after_harness_trouble"] = run.retries
	cov["retry_reasons"] = run.retryWhy
	cov["schedules_skipped_nondeterministic_replay"] = run.nondet
	for _, n := range run.incomplete {
		cov["budget_hit_in_"+n] = 1
	}
	return &CustomResult{Coverage: cov, Violations: run.found, Harness: run.harness}
}

func (r *c14Run) add(sc c14Scenario, prefix []int, x mc.Violation) {
	r.fpSeen[x.FP]++
	if r.fpSeen[x.FP] > 2 {
		return
	}
	r.found = append(r.found, mc.Found{Scenario: "c14", Viol: x, Custom: c14Replay{Scenario: sc.Name, Schedule: encodeChoices(prefix)}})
}

func checkC14(tier string, seed int64) *CustomResult {
	res := runSharded("c14", tier, shardCount())
	bound := 1
	if tier == "thorough" {
		bound = 2
	}
	if tier == "thorough" || os.Getenv("VERIF_RACEPASS") != "" {
		rcov, rfound, rharness := runRacePass(40)
		for k, x := range rcov {
			res.Coverage[k] = x
		}
		res.Violations = append(res.Violations, rfound...)
		res.Harness = append(res.Harness, rharness...)
	}
	ex, _ := res.Coverage["executions"].(int64)
	fs, _ := res.Coverage["distinct_final_states"].(int64)
	res.Coverage["states"] = fs
	res.Coverage["transitions"] = ex
	res.Coverage["traces_validated_against_impl"] = ex
	res.Coverage["distinct_nontrivial"] = fs
	res.Coverage["preemption_bound_completed"] = bound
	res.Coverage["rule"] = fmt.Sprintf("every schedule with at most %d preemption(s) of the thread bodies of %d scenarios (scheduling cycle, RM event handlers, config reload, placeholder timer, partition removal, queue cleaner, health checker, REST readers) on the real core, scheduling points = every Lock/RLock of pkg/locking; one evaluation = one complete execution; distinct = distinct (scenario, settled final state) pairs; transitions = executions (each is a run of the implementation)", bound, len(c14Scenarios()))
	res.Coverage["explanation"] = "deadlock = no enabled thread while some thread has not finished (RWMutex modelled writer-preferring); invariants of C01/C03/C05/C09/C11 on the settled final state of every execution. Data races on accesses outside the locks are not visible to this engine"
	return res
}

// replayC14 re-executes one stored schedule five times and requires the same verdict every time.
func replayC14(fp string, raw interface{}) int {
	var rp c14Replay
	b, _ := json.Marshal(raw)
	if err := json.Unmarshal(b, &rp); err != nil {
		fmt.Println("unreadable replay:", err)
		return 2
	}
	runtime.GOMAXPROCS(1) // as in the exploring workers (see DESIGN.md, E2)
	world.SetMapMode(1)
	if i := strings.Index(fp, ":"); i > 0 && fp[:i] != "C14" {
		fp = "C14" + fp[i:] // other checks (C01, C02, C07) report rules of the same executions under their own property
	}
	for _, sc := range c14Scenarios() {
		if sc.Name != rp.Scenario {
			continue
		}
		hits := 0
		for i := 0; i < 5; i++ {
			res, digest, viol, names := c14Exec(sc, decodeChoices(rp.Schedule))
			if i == 0 {
				fmt.Printf("scenario %s threads: %s\nschedule (thread chosen at every lock acquisition, %d points):", sc.Name, names, len(res.Points))
				last := -1
				for _, p := range res.Points {
					id := p.Enabled[p.Chosen]
					if id != last {
						fmt.Printf(" T%d", id)
						last = id
					} else {
						fmt.Print(".")
					}
				}
				fmt.Printf("\nfinal state digest %s\n", digest)
			}
			found := false
			if res.Deadlock != "" {
				fmt.Println("deadlock:", res.Deadlock)
				found = strings.Contains(fp, ":deadlock:")
				if found {
					fmt.Println("REPRODUCED (a deadlocked instance cannot be re-run in the same process)")
					return 1
				}
			}
			for _, p := range res.Panics {
				fmt.Println("panic:", firstLine(p))
				if i == 0 {
					n := 0
					for _, l := range strings.Split(p, "\n") {
						if strings.Contains(l, "/repo/pkg/") && n < 8 {
							fmt.Println("   ", strings.TrimSpace(l))
							n++
						}
					}
				}
				found = found || strings.Contains(fp, ":panic:")
			}
			for _, x := range viol {
				if i == 0 {
					fmt.Printf("violation: %s: %s\n", x.Rule, x.Detail)
				}
				if x.FP == fp {
					found = true
				}
			}
			if res.Harness != "" {
				fmt.Println("harness:", res.Harness)
				return 2
			}
			if found {
				hits++
			}
		}
		fmt.Printf("reproduced in %d of 5 runs\n", hits)
		if hits == 5 {
			fmt.Println("REPRODUCED")
			return 1
		}
		if hits > 0 {
			fmt.Println("NOT DETERMINISTIC")
			return 2
		}
		fmt.Println("not reproduced")
		return 0
	}
	fmt.Println("unknown scenario", rp.Scenario)
	return 2
}

func init() {
	ShardFuncs["c14"] = c14Shard
	registerCheck(&CheckDef{Prop: "C14", Level: "model_checking", Technique: "stateless model checking of the implementation: depth-first enumeration of all lock-granularity interleavings of the real goroutine bodies under a cooperative scheduler, preemption bounded", Custom: checkC14, Replay: replayC14,
		Assumptions: []string{"scheduling points are the acquisitions of pkg/locking mutexes; unlocked shared accesses and memory-model effects are outside (race detector territory)", "2-3 threads with 1-2 operations each per scenario"}})
}

// C14Determinism runs the default schedule (or the given prefix) of one scenario n times and reports the first
// scheduling point at which two runs differ (debugging aid).
func C14Determinism(name string, n int, prefix []int) {
	ilv.Trace = true
	for _, sc := range c14Scenarios() {
		if !strings.Contains(sc.Name, name) {
			continue
		}
		var first *ilv.Result
		for i := 0; i < n; i++ {
			res, _, _, _ := c14Exec(sc, prefix)
			if res.Harness != "" {
				fmt.Printf("run %d: harness: %s\n", i, res.Harness)
				continue
			}
			if first == nil {
				first = res
				fmt.Printf("%s: %d points, %d threads\n", sc.Name, len(res.Points), res.Threads)
				continue
			}
			for k := 0; k < len(first.Points) || k < len(res.Points); k++ {
				if k >= len(first.Points) || k >= len(res.Points) || fmt.Sprint(first.Points[k].Enabled) != fmt.Sprint(res.Points[k].Enabled) || first.Points[k].Desc != res.Points[k].Desc {
					fmt.Printf("run %d differs at point %d (of %d / %d)\n", i, k, len(first.Points), len(res.Points))
					for q := k - 2; q <= k+1; q++ {
						if q >= 0 && q < len(first.Points) {
							fmt.Printf("  first[%d] en=%v %s\n", q, first.Points[q].Enabled, first.Points[q].Desc)
						}
						if q >= 0 && q < len(res.Points) {
							fmt.Printf("  this [%d] en=%v %s\n", q, res.Points[q].Enabled, res.Points[q].Desc)
						}
					}
					break
				}
			}
		}
	}
}

// LeakProbe builds and drops n worlds of a scenario (prefix length cut to k ops) and prints the live heap (debugging aid).
func LeakProbe(name string, n, k int) {
	for _, sc := range c14Scenarios() {
		if !strings.Contains(sc.Name, name) {
			continue
		}
		scn := *sc.Scn
		if k < len(scn.Prefix) {
			scn.Prefix = scn.Prefix[:k]
		}
		var ms runtime.MemStats
		for i := 0; i <= n; i++ {
			w, err := world.New(&scn)
			if err != nil {
				fmt.Println(err)
				return
			}
			w.Close()
			if i%(n/4) == 0 {
				runtime.GC()
				runtime.ReadMemStats(&ms)
				fmt.Printf("%s prefix %d: after %d worlds live heap %d KB, objects %d\n", sc.Name, len(scn.Prefix), i, ms.HeapAlloc/1024, ms.HeapObjects)
			}
		}
		if path := os.Getenv("VERIF_HEAPPROF"); path != "" {
			if fh, err := os.Create(path); err == nil {
				_ = pprof.WriteHeapProfile(fh)
				fh.Close()
			}
		}
	}
}

// DecodeChoices exposes the schedule decoder to the command line tools.
func DecodeChoices(s string) []int { return decodeChoices(s) }

// c14ExecTracedResult runs the schedule again without tracing for the ordinary verdicts and adds the step verdicts of the
// traced run (which carry the window of the interleaving in their fingerprint).
func c14ExecTracedResult(sc c14Scenario, prefix []int, steps []mc.Violation) (*ilv.Result, string, []mc.Violation, string) {
	c14NoProbe = true
	res, digest, viol, names := c14Exec(sc, prefix)
	c14NoProbe = false
	return res, digest, append(viol, steps...), names
}

var c14NoProbe bool
var c14ProbeSteps, c14ProbeRaising int

// c14Part builds the "Also" part of another property's check: the interleaving exploration of the scenarios selected by
// sel, keeping the violations whose rule starts with rulePrefix and reporting them under prop.
func c14Part(prop, shardName, rulePrefix string, sel func(name string) bool) func(tier string) *CustomResult {
	ShardFuncs[shardName] = func(tier string, shard, n int) *CustomResult {
		r := c14ShardSel(tier, shard, n, sel)
		var keep []mc.Found
		for _, f := range r.Violations {
			if strings.HasPrefix(f.Viol.Rule, rulePrefix) {
				f.Viol.Prop = prop
				f.Viol.FP = prop + ":" + strings.TrimPrefix(f.Viol.FP, "C14:")
				keep = append(keep, f)
			}
		}
		r.Violations = keep
		return r
	}
	return func(tier string) *CustomResult {
		r := runSharded(shardName, tier, shardCount())
		out := &CustomResult{Coverage: map[string]interface{}{}, Violations: r.Violations, Harness: r.Harness}
		for _, k := range []string{"executions", "distinct_final_states", "lock_operations_scheduled", "schedules_skipped_nondeterministic_replay", "exhaustive", "scheduling_points_observed", "scheduling_steps_raising_usage"} {
			if x, ok := r.Coverage[k]; ok {
				out.Coverage[k] = x
			}
		}
		return out
	}
}
