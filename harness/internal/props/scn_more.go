package props

import (
	"strings"
	"time"

	"verif/harness/internal/mc"
	"verif/harness/internal/world"
)

const tE1 = "explicit-state BFS over the real ClusterContext (bounded op sequences, canonical-state dedup)"

// ---------------------------------------------------------------- gang

func scnGang(name, style string) *world.Scenario {
	conf := `partitions:
  - name: default
    queues:
      - name: root
        submitacl: "*"
        queues:
          - name: a
          - name: b
`
	return &world.Scenario{
		Name:    name,
		Configs: []string{conf},
		Nodes: []world.NodeSpec{
			{ID: "n1", Cap: world.MV(3, 3)},
			{ID: "n2", Cap: world.MV(2, 2)},
		},
		Apps: []world.AppSpec{
			{ID: "gapp", Queue: "root.a", User: "u1", Groups: []string{"g1"}, Gang: style, PlaceholderAsk: world.MV(4, 2)},
			{ID: "app2", Queue: "root.b", User: "u2", Groups: []string{"g2"}},
		},
		Asks: []world.AskSpec{
			{Key: "p1", App: "gapp", Res: world.MV(2, 1), Placeholder: true, TaskGroup: "tg1", Create: 1001},
			{Key: "p2", App: "gapp", Res: world.MV(2, 1), Placeholder: true, TaskGroup: "tg1", Create: 1002},
			{Key: "r1", App: "gapp", Res: world.MV(1, 1), TaskGroup: "tg1", Create: 1003},
			{Key: "r2", App: "gapp", Res: world.MV(3, 1), TaskGroup: "tg1", Create: 1004}, // larger than the placeholder
			{Key: "r3", App: "gapp", Res: world.MV(2, 1), TaskGroup: "tg2", Create: 1005}, // task group without placeholders
			{Key: "b1", App: "app2", Res: world.MV(2, 2), Create: 1006},
		},
		Deny:          [][2]string{{"r1", "n1"}},
		Alphabet:      []string{"SCHEDULE", "ASK", "RELEASE", "CONFIRM", "CONFIRM_DUP", "TIMER_PH", "TIMER_STATE", "NODE_REMOVE", "APP_REMOVE", "APP_ADD"},
		Prefix:        []world.Op{op("NODE_ADD", "n1"), op("NODE_ADD", "n2"), op("APP_ADD", "gapp"), op("ASK", "p1")},
		MaxConfirmDup: 1,
	}
}

// ---------------------------------------------------------------- reservations

func scnReserve(name string) *world.Scenario {
	conf := `partitions:
  - name: default
    queues:
      - name: root
        submitacl: "*"
        queues:
          - name: a
          - name: b
`
	return &world.Scenario{
		Name:    name,
		Configs: []string{conf},
		Reserve: true,
		Nodes: []world.NodeSpec{
			{ID: "n1", Cap: world.M(2)},
			{ID: "n2", Cap: world.M(2)},
		},
		Apps: []world.AppSpec{
			{ID: "app1", Queue: "root.a", User: "u1", Groups: []string{"g1"}},
			{ID: "app2", Queue: "root.b", User: "u2", Groups: []string{"g2"}},
		},
		Asks: []world.AskSpec{
			{Key: "a1", App: "app1", Res: world.M(2), Create: 1001},
			{Key: "a2", App: "app1", Res: world.M(1), Create: 1002},
			{Key: "b1", App: "app2", Res: world.M(2), Create: 1003},
			{Key: "b2", App: "app2", Res: world.M(1), Create: 1004, RequiredNode: "n1", Prio: 5},
		},
		Deny:     [][2]string{{"a2", "n2"}},
		Alphabet: []string{"SCHEDULE", "ASK", "RELEASE", "NODE_ADD", "NODE_REMOVE", "NODE_DRAIN", "NODE_UNDRAIN", "APP_ADD", "APP_REMOVE", "CONFIRM"},
		Prefix:   []world.Op{op("NODE_ADD", "n1"), op("APP_ADD", "app1"), op("APP_ADD", "app2"), op("ASK", "a1")},
	}
}

// ---------------------------------------------------------------- queue maxima

func scnQueueMax(name, conf string, apps []world.AppSpec) *world.Scenario {
	if apps == nil {
		apps = []world.AppSpec{
			{ID: "app1", Queue: "root.p.a", User: "u1", Groups: []string{"g1"}},
			{ID: "app2", Queue: "root.p.b", User: "u2", Groups: []string{"g2"}},
		}
	}
	return &world.Scenario{
		Name:    name,
		Configs: []string{conf},
		Nodes: []world.NodeSpec{
			{ID: "n1", Cap: world.MV(4, 4)},
			{ID: "n2", Cap: world.M(3)},
		},
		Apps: apps,
		Asks: []world.AskSpec{
			{Key: "a1", App: "app1", Res: world.MV(1, 1), Create: 1001},
			{Key: "a2", App: "app1", Res: world.M(2), Create: 1002},
			{Key: "a3", App: "app1", Res: Res{"vcore": 2}, Create: 1003},
			{Key: "b1", App: "app2", Res: world.MV(2, 1), Create: 1004},
			{Key: "b2", App: "app2", Res: Res{"memory": 1, "gpu": 1}, Create: 1005},
			{Key: "b3", App: "app2", Res: world.M(2), Create: 1006, BoundNode: "n1"},
		},
		Alphabet: []string{"SCHEDULE", "ASK", "ASK_BOUND", "RELEASE", "NODE_ADD", "NODE_REMOVE", "APP_ADD", "APP_REMOVE"},
		Prefix:   []world.Op{op("NODE_ADD", "n1"), op("APP_ADD", "app1")},
	}
}

const confMaxLeaf = `partitions:
  - name: default
    queues:
      - name: root
        submitacl: "*"
        queues:
          - name: p
            parent: true
            queues:
              - name: a
                resources:
                  max: {memory: 2, vcore: 2}
              - name: b
                resources:
                  max: {memory: 3}
`

const confMaxParent = `partitions:
  - name: default
    queues:
      - name: root
        submitacl: "*"
        queues:
          - name: p
            parent: true
            resources:
              max: {memory: 3}
            queues:
              - name: a
              - name: b
                resources:
                  max: {vcore: 1}
`

const confMaxDynamic = `partitions:
  - name: default
    placementrules:
      - name: provided
        create: true
    queues:
      - name: root
        submitacl: "*"
        queues:
          - name: p
            parent: true
            resources:
              max: {memory: 4, vcore: 3}
            childtemplate:
              resources:
                max: {memory: 2}
`

// ---------------------------------------------------------------- max applications

func scnMaxApps(name, conf string, apps []world.AppSpec) *world.Scenario {
	return &world.Scenario{
		Name:    name,
		Configs: []string{conf},
		Nodes:   []world.NodeSpec{{ID: "n1", Cap: world.MV(6, 6)}},
		Apps:    apps,
		Asks: []world.AskSpec{
			{Key: "a1", App: "app1", Res: world.M(1), Create: 1001},
			{Key: "b1", App: "app2", Res: world.M(1), Create: 1002},
			{Key: "c1", App: "app3", Res: world.M(1), Create: 1003},
			{Key: "c2", App: "app3", Res: world.M(1), Create: 1004},
			{Key: "gp", App: "gapp", Res: world.M(1), Placeholder: true, TaskGroup: "tg", Create: 1005},
			{Key: "gp2", App: "gapp", Res: world.M(1), Placeholder: true, TaskGroup: "tg", Create: 1006},
			{Key: "gr", App: "gapp", Res: world.M(1), TaskGroup: "tg", Create: 1007},
		},
		Alphabet: []string{"SCHEDULE", "ASK", "RELEASE", "APP_ADD", "APP_REMOVE", "CONFIRM", "TIMER_STATE", "TIMER_PH"},
		Prefix:   []world.Op{op("NODE_ADD", "n1"), op("APP_ADD", "app1"), op("ASK", "a1")},
	}
}

const confMaxAppsLeaf = `partitions:
  - name: default
    queues:
      - name: root
        submitacl: "*"
        queues:
          - name: p
            parent: true
            maxapplications: 2
            queues:
              - name: a
                maxapplications: 1
              - name: b
                maxapplications: 2
`

var appsMaxApps = []world.AppSpec{
	{ID: "app1", Queue: "root.p.a", User: "u1", Groups: []string{"g1"}},
	{ID: "app2", Queue: "root.p.a", User: "u1", Groups: []string{"g1"}},
	{ID: "app3", Queue: "root.p.b", User: "u2", Groups: []string{"g2"}},
	{ID: "gapp", Queue: "root.p.b", User: "u2", Groups: []string{"g2"}, Gang: "Soft", PlaceholderAsk: world.M(2)},
}

// ---------------------------------------------------------------- life cycle

func scnLifecycle(name string) *world.Scenario {
	return &world.Scenario{
		Name:    name,
		Configs: []string{confBasic},
		Nodes:   []world.NodeSpec{{ID: "n1", Cap: world.M(3)}},
		Apps: []world.AppSpec{
			{ID: "app1", Queue: "root.a", User: "u1", Groups: []string{"g1"}},
			{ID: "gapp", Queue: "root.b", User: "u2", Groups: []string{"g2"}, Gang: "Hard", PlaceholderAsk: world.M(1)},
			{ID: "bad", Queue: "root.nonexistent", User: "u1", Groups: []string{"g1"}},
		},
		Asks: []world.AskSpec{
			{Key: "a1", App: "app1", Res: world.M(1), Create: 1001},
			{Key: "a2", App: "app1", Res: world.M(4), Create: 1002},
			{Key: "gp", App: "gapp", Res: world.M(1), Placeholder: true, TaskGroup: "tg", Create: 1003},
			{Key: "gr", App: "gapp", Res: world.M(1), TaskGroup: "tg", Create: 1004},
		},
		Alphabet:      []string{"SCHEDULE", "ASK", "RELEASE", "RELEASE_ALL", "APP_ADD", "APP_REMOVE", "CONFIRM", "TIMER_STATE", "TIMER_PH", "CLEAN_EXPIRED", "NODE_REMOVE"},
		Prefix:        []world.Op{op("NODE_ADD", "n1"), op("APP_ADD", "app1")},
		MaxConfirmDup: 0,
	}
}

func init() {
	for _, style := range []string{"Soft", "Hard"} {
		mc.Register(&mc.ScenarioDef{Scn: scnGang("gang-"+style, style), Monitors: []mc.Monitor{monC06()}})
		mc.Register(&mc.ScenarioDef{Scn: scnGang("gang-acct-"+style, style), Monitors: []mc.Monitor{monC03()}})
		mc.Register(&mc.ScenarioDef{Scn: scnGang("gang-si-"+style, style), Monitors: []mc.Monitor{monC04()}})
		mc.Register(&mc.ScenarioDef{Scn: scnGang("gang-cap-"+style, style), Monitors: []mc.Monitor{monC01()}})
		mc.Register(&mc.ScenarioDef{Scn: scnGang("gang-life-"+style, style), Monitors: []mc.Monitor{monC10()}})
	}
	mc.Register(&mc.ScenarioDef{Scn: scnReserve("reserve"), Monitors: []mc.Monitor{monC09()}})
	mc.Register(&mc.ScenarioDef{Scn: scnReserve("reserve-cap"), Monitors: []mc.Monitor{monC01()}})
	mc.Register(&mc.ScenarioDef{Scn: scnReserve("reserve-acct"), Monitors: []mc.Monitor{monC03()}})
	mc.Register(&mc.ScenarioDef{Scn: scnReserve("reserve-si"), Monitors: []mc.Monitor{monC04()}})
	siBasic := scnCapBasic("si-basic", "fair")
	siBasic.Alphabet = append(siBasic.Alphabet, "ASK_RELEASE", "ASK_AGAIN") // an ask and its own release in one update; a key used a second time
	mc.Register(&mc.ScenarioDef{Scn: siBasic, Monitors: []mc.Monitor{monC04()}})
	// an allocation key that is used, released and used again for a new task
	siReuse := scnCapBasic("si-reuse", "fair")
	siReuse.Alphabet = []string{"SCHEDULE", "ASK", "ASK_AGAIN", "RELEASE", "NODE_ADD"}
	siReuse.Foreign = nil
	siReuse.Prefix = append(siReuse.Prefix, op("ASK", "a1"), op("SCHEDULE"))
	mc.Register(&mc.ScenarioDef{Scn: siReuse, Monitors: []mc.Monitor{monC04()}})
	mc.Register(&mc.ScenarioDef{Scn: scnQueueMax("qmax-leaf", confMaxLeaf, nil), Monitors: []mc.Monitor{monC02()}})
	mc.Register(&mc.ScenarioDef{Scn: scnQueueMax("qmax-parent", confMaxParent, nil), Monitors: []mc.Monitor{monC02()}})
	mc.Register(&mc.ScenarioDef{Scn: scnQueueMax("qmax-dynamic", confMaxDynamic, []world.AppSpec{
		{ID: "app1", Queue: "root.p.x", User: "u1", Groups: []string{"g1"}},
		{ID: "app2", Queue: "root.p.y", User: "u2", Groups: []string{"g2"}, Tags: map[string]string{"namespace.resourcequota": `{"memory": "3", "vcore": "1"}`}},
	}), Monitors: []mc.Monitor{monC02()}})
	mc.Register(&mc.ScenarioDef{Scn: scnMaxApps("maxapps", confMaxAppsLeaf, appsMaxApps), Monitors: []mc.Monitor{monC11()}})
	mc.Register(&mc.ScenarioDef{Scn: scnLifecycle("lifecycle"), Monitors: []mc.Monitor{monC10()}})

	// reloads that change a maximum only by adding a type with quantity 0 (forbidden) or by removing it again (unlimited)
	qz := scnQueueMax("qmax-reload-zero", confMaxLeaf, nil)
	qz.Configs = []string{confMaxLeaf, strings.Replace(confMaxLeaf, "max: {memory: 3}", "max: {memory: 3, gpu: 0}", 1), strings.Replace(confMaxLeaf, "max: {memory: 2, vcore: 2}", "max: {memory: 2, vcore: 0}", 1)}
	qz.Nodes = []world.NodeSpec{{ID: "n1", Cap: Res{"memory": 6, "vcore": 6, "gpu": 2}}}
	qz.Alphabet = []string{"SCHEDULE", "ASK", "RELEASE", "CONFIG", "APP_ADD"}
	mc.Register(&mc.ScenarioDef{Scn: qz, Monitors: []mc.Monitor{monC02()}})
	registerCheck(&CheckDef{Prop: "C02", Level: "model_checking", Technique: tE1,
		Quick:       []Run{{Scenario: "qmax-leaf", Depth: 6, MapModes: []int{1}}, {Scenario: "qmax-parent", Depth: 6, MapModes: []int{1}}, {Scenario: "qmax-dynamic", Depth: 6, MapModes: []int{1}}, {Scenario: "gang-sparse-qmax", Depth: 6, MapModes: []int{1}}, {Scenario: "qmax-reload-zero", Depth: 6, MapModes: []int{1}}, {Scenario: "qmax-reqnode", Depth: 6, MapModes: []int{1}}},
		Thorough:    []Run{{Scenario: "qmax-reqnode", Depth: 6, MapModes: []int{1}}, {Scenario: "qmax-reload-zero", Depth: 8, MapModes: []int{1}}, {Scenario: "gang-sparse-qmax", Depth: 9, MapModes: []int{1}}, {Scenario: "qmax-leaf", Depth: 8, MapModes: []int{1, 2}}, {Scenario: "qmax-parent", Depth: 8, MapModes: []int{1, 2}}, {Scenario: "qmax-dynamic", Depth: 8, MapModes: []int{1, 2}}},
		QuickBudget: 150 * time.Second, ThoroughBudget: 12 * time.Minute,
		// the moment of the decision under concurrency: scheduling cycle || allocation placed by the RM in the same leaf
		Also: c14Part("C02", "c02ilv", "step-C02-", func(n string) bool {
			return strings.HasPrefix(n, "S29-") || strings.HasPrefix(n, "S8-") || strings.HasPrefix(n, "S26-")
		}), Replay: replayC14})
	registerCheck(&CheckDef{Prop: "C04", Level: "model_checking", Technique: tE1,
		Quick:       []Run{{Scenario: "si-basic", Depth: 6, MapModes: []int{1}}, {Scenario: "gang-si-Soft", Depth: 6, MapModes: []int{1}}, {Scenario: "gang-si-Hard", Depth: 5, MapModes: []int{1}}, {Scenario: "reserve-si", Depth: 6, MapModes: []int{1}}, {Scenario: "gang-si-same", Depth: 6, MapModes: []int{1}}, {Scenario: "reserve-bind-si", Depth: 6, MapModes: []int{1}}, {Scenario: "gang-si-reversed", Depth: 7, MapModes: []int{1}}, {Scenario: "si-reuse", Depth: 7, MapModes: []int{1}}},
		Thorough:    []Run{{Scenario: "si-reuse", Depth: 9, MapModes: []int{1}}, {Scenario: "gang-si-reversed", Depth: 10, MapModes: []int{1}}, {Scenario: "gang-si-same", Depth: 10, MapModes: []int{1}}, {Scenario: "reserve-bind-si", Depth: 10, MapModes: []int{1, 2}}, {Scenario: "si-basic", Depth: 9, MapModes: []int{1, 2}}, {Scenario: "gang-si-Soft", Depth: 9, MapModes: []int{1, 2}}, {Scenario: "gang-si-Hard", Depth: 9, MapModes: []int{1}}, {Scenario: "reserve-si", Depth: 8, MapModes: []int{1}}},
		QuickBudget: 150 * time.Second, ThoroughBudget: 12 * time.Minute})
	registerCheck(&CheckDef{Prop: "C06", Level: "model_checking", Technique: tE1,
		Quick:       []Run{{Scenario: "gang-Soft", Depth: 7, MapModes: []int{1}}, {Scenario: "gang-Hard", Depth: 7, MapModes: []int{1}}, {Scenario: "gang-sparse", Depth: 7, MapModes: []int{1}}},
		Thorough:    []Run{{Scenario: "gang-sparse", Depth: 10, MapModes: []int{1}}, {Scenario: "gang-Soft", Depth: 10, MapModes: []int{1, 2}}, {Scenario: "gang-Hard", Depth: 10, MapModes: []int{1, 2}}},
		QuickBudget: 150 * time.Second, ThoroughBudget: 12 * time.Minute})
	registerCheck(&CheckDef{Prop: "C09", Level: "model_checking", Technique: tE1,
		Quick:       []Run{{Scenario: "reserve", Depth: 7, MapModes: []int{1}}, {Scenario: "reserve-bind", Depth: 6, MapModes: []int{1}}, {Scenario: "reserve-two", Depth: 6, MapModes: []int{1}}},
		Thorough:    []Run{{Scenario: "reserve-bind", Depth: 9, MapModes: []int{1, 2}}, {Scenario: "reserve", Depth: 9, MapModes: []int{1, 2, 3}}, {Scenario: "reserve-two", Depth: 8, MapModes: []int{1, 2}}},
		QuickBudget: 150 * time.Second, ThoroughBudget: 12 * time.Minute,
		// the scheduling cycle reserves in one goroutine while the RM withdraws the ask in another: the four views over all
		// their interleavings
		Also: c14Part("C09", "c09ilv", "final-state-C09-", func(n string) bool { return strings.HasPrefix(n, "S10-") || strings.HasPrefix(n, "S1-") }), Replay: replayC14})
	registerCheck(&CheckDef{Prop: "C10", Level: "model_checking", Technique: tE1,
		Quick:       []Run{{Scenario: "lifecycle", Depth: 7, MapModes: []int{1}}, {Scenario: "gang-life-Soft", Depth: 6, MapModes: []int{1}}, {Scenario: "gang-life-Hard", Depth: 6, MapModes: []int{1}}, {Scenario: "lifecycle-late", Depth: 8, MapModes: []int{1}}},
		Thorough:    []Run{{Scenario: "lifecycle-late", Depth: 11, MapModes: []int{1}}, {Scenario: "lifecycle", Depth: 9, MapModes: []int{1, 2}}, {Scenario: "gang-life-Soft", Depth: 8, MapModes: []int{1}}, {Scenario: "gang-life-Hard", Depth: 8, MapModes: []int{1}}},
		QuickBudget: 150 * time.Second, ThoroughBudget: 12 * time.Minute,
		// the timers, the RM event handler and the scheduling loop are different goroutines: life-cycle rules over all their
		// interleavings (completing timer || new ask, restart from Completing, expired cleanup, Hard gang timeout)
		Also: c14Part("C10", "c10ilv", "final-state-C10-", func(n string) bool {
			return strings.HasPrefix(n, "S15-") || strings.HasPrefix(n, "S16-") || strings.HasPrefix(n, "S21-") || strings.HasPrefix(n, "S22-") || strings.HasPrefix(n, "S24-")
		}), Replay: replayC14})
	registerCheck(&CheckDef{Prop: "C11", Level: "model_checking", Technique: tE1,
		Quick:       []Run{{Scenario: "maxapps", Depth: 8, MapModes: []int{1}}, {Scenario: "maxapps-restart", Depth: 9, MapModes: []int{1}}, {Scenario: "maxapps-reserve", Depth: 6, MapModes: []int{1}}},
		Thorough:    []Run{{Scenario: "maxapps-reserve", Depth: 9, MapModes: []int{1, 2}}, {Scenario: "maxapps-restart", Depth: 12, MapModes: []int{1}}, {Scenario: "maxapps", Depth: 10, MapModes: []int{1, 2}}},
		QuickBudget: 150 * time.Second, ThoroughBudget: 12 * time.Minute})
}
