package props

import (
	"verif/harness/internal/mc"
	"verif/harness/internal/world"
)

// C06: gang scheduling: placeholders are swapped, timed out and cleaned up consistently.
func monC06() mc.Monitor {
	return funcMonitor{"C06", func(scn *world.Scenario, pre *world.Snap, st *world.Step, post *world.Snap, counts map[string]int) []mc.Violation {
		var out []mc.Violation
		if post == nil {
			return []mc.Violation{v("C06", "no-crash", st.Op.K, "op %s crashed/hung: %s%s", st.Op, firstLine(st.Panic), firstLine(st.Hang))}
		}
		if post.Gone {
			return nil
		}
		// ---- replacement announcements
		for _, o := range st.Out {
			if o.T != "release" || o.Term != "PLACEHOLDER_REPLACED" {
				continue
			}
			counts["C06.replace-announced"]++
			app := post.Apps[o.App]
			if app == nil {
				out = append(out, v("C06", "replace-unknown-app", "app", "PLACEHOLDER_REPLACED announced for %s of unknown application %s", o.Key, o.App))
				continue
			}
			ph, ok := app.Allocs[o.Key]
			if !ok || !ph.Ph {
				out = append(out, v("C06", "replace-not-a-placeholder", "ph", "PLACEHOLDER_REPLACED announced for %s which is not an allocated placeholder of %s", o.Key, o.App))
				continue
			}
			real, ok := app.Asks[ph.Release]
			if ph.Release == "" || !ok {
				out = append(out, v("C06", "replace-without-real", "link", "placeholder %s announced as replaced but no real ask is linked to it", o.Key))
				continue
			}
			if real.Ph {
				out = append(out, v("C06", "replace-by-placeholder", "link", "placeholder %s is replaced by %s which is itself a placeholder", o.Key, ph.Release))
			}
			if real.TG != ph.TG {
				out = append(out, v("C06", "replace-other-task-group", "taskgroup", "real ask %s (task group %q) replaces placeholder %s of task group %q", ph.Release, real.TG, o.Key, ph.TG))
			}
			if !real.Res.FitsIn(ph.Res) {
				out = append(out, v("C06", "replace-larger-than-placeholder", "size", "real ask %s (%s) replaces placeholder %s (%s) although it is larger", ph.Release, real.Res, o.Key, ph.Res))
			}
			if spec := scn.Ask(ph.Release); spec != nil && spec.App != o.App {
				out = append(out, v("C06", "replace-other-application", "app", "real ask %s of application %s replaces a placeholder of %s", ph.Release, spec.App, o.App))
			}
		}
		// ---- confirmation of a swap
		if st.Op.K == "CONFIRM" || st.Op.K == "CONFIRM_DUP" {
			var p world.PendingRel
			if st.Op.K == "CONFIRM" {
				p = pre.Shim.Pending[st.Op.N]
			} else {
				p = pre.Shim.Confirmed[st.Op.N]
			}
			if pa := pre.Apps[p.App]; pa != nil && pa.Where == "active" {
				if ph, had := pa.Allocs[p.Key]; had && ph.Ph {
					counts["C06.confirm"]++
					qa := post.Apps[p.App]
					if qa != nil {
						if _, still := qa.Allocs[p.Key]; still {
							out = append(out, v("C06", "placeholder-survives-confirm", p.Term, "placeholder %s still is an allocation of %s after the shim confirmed its release (%s)", p.Key, p.App, p.Term))
						}
					}
					for _, n := range sortedKeys(post.Nodes) {
						if _, still := post.Nodes[n].Allocs[p.Key]; still {
							out = append(out, v("C06", "placeholder-survives-confirm", "node", "placeholder %s still is on node %s after the shim confirmed its release (%s)", p.Key, n, p.Term))
						}
					}
					// usage never more than before
					for _, q := range sortedKeys(post.Queues) {
						if pq := pre.Queues[q]; pq != nil && !post.Queues[q].Allocated.FitsIn(pq.Allocated) {
							out = append(out, v("C06", "confirm-increases-usage", "queue", "confirming %s (%s) increased usage of queue %s from %s to %s", p.Key, p.Term, q, pq.Allocated, post.Queues[q].Allocated))
						}
					}
					for _, n := range sortedKeys(post.Nodes) {
						if pn := pre.Nodes[n]; pn != nil && !post.Nodes[n].Allocated.FitsIn(pn.Allocated) {
							out = append(out, v("C06", "confirm-increases-usage", "node", "confirming %s (%s) increased usage of node %s from %s to %s", p.Key, p.Term, n, pn.Allocated, post.Nodes[n].Allocated))
						}
					}
					for _, u := range sortedKeys(post.Users) {
						for path, t := range post.Users[u].Queues {
							if pu := pre.Users[u]; pu != nil {
								if !t.Usage.FitsIn(pu.Queues[path].Usage) {
									out = append(out, v("C06", "confirm-increases-usage", "user", "confirming %s (%s) increased usage of user %s on %s from %s to %s", p.Key, p.Term, u, path, pu.Queues[path].Usage, t.Usage))
								}
							}
						}
					}
					if p.Term == "PLACEHOLDER_REPLACED" && ph.Release != "" && ph.Released && qa != nil {
						counts["C06.confirm-swap"]++
						real, ok := qa.Allocs[ph.Release]
						if !ok || real.Ph {
							out = append(out, v("C06", "swap-real-missing", "real", "swap of %s confirmed but the real allocation %s is not an allocation of %s", p.Key, ph.Release, p.App))
						} else {
							// node, queue and user usage reflect the real allocation: the queue went down by exactly placeholder - real
							delta := ph.Res.Sub(real.Res)
							leaf := pre.Queues[pa.Queue]
							if leaf != nil && post.Queues[pa.Queue] != nil {
								if !leaf.Allocated.Sub(delta).Equal(post.Queues[pa.Queue].Allocated) {
									out = append(out, v("C06", "swap-queue-usage", "queue", "swap %s -> %s: queue %s usage went from %s to %s, expected a decrease of %s", p.Key, ph.Release, pa.Queue, leaf.Allocated, post.Queues[pa.Queue].Allocated, delta))
								}
							}
							if pn, qn := pre.Nodes[real.Node], post.Nodes[real.Node]; pn != nil && qn != nil {
								if _, on := qn.Allocs[ph.Release]; !on {
									out = append(out, v("C06", "swap-real-not-on-node", "node", "swap %s -> %s confirmed but node %s does not hold the real allocation", p.Key, ph.Release, real.Node))
								}
							}
						}
					}
				}
			}
		}
		// ---- a node removal can complete a replacement itself (placeholder on the removed node, real allocation on
		// another one): whatever it completes or reverses, no queue and no user uses more afterwards than before
		if st.Op.K == "NODE_REMOVE" {
			inflight := false
			for _, a := range pre.Apps {
				for _, al := range a.Allocs {
					if al.Ph && al.Released && al.Release != "" {
						inflight = true
					}
				}
			}
			if inflight {
				counts["C06.node-removal-during-swap"]++
				for _, q := range sortedKeys(post.Queues) {
					if pq := pre.Queues[q]; pq != nil && !post.Queues[q].Allocated.FitsIn(pq.Allocated) {
						out = append(out, v("C06", "swap-usage-grew", "queue/node-removal", "removing node %s while a replacement was in flight raised the usage of queue %s from %s to %s", st.Op.A, q, pq.Allocated, post.Queues[q].Allocated))
					}
				}
				for _, u := range sortedKeys(post.Users) {
					for path, t := range post.Users[u].Queues {
						if pu := pre.Users[u]; pu != nil && !t.Usage.FitsIn(pu.Queues[path].Usage) {
							out = append(out, v("C06", "swap-usage-grew", "user/node-removal", "removing node %s while a replacement was in flight raised the usage of user %s in %s from %s to %s", st.Op.A, u, path, pu.Queues[path].Usage, t.Usage))
						}
					}
				}
			}
		}
		// ---- per task group: replaced never exceeds the number of placeholders
		for _, id := range sortedKeys(post.Apps) {
			a := post.Apps[id]
			for _, tg := range sortedKeys(a.PhData) {
				d := a.PhData[tg]
				counts["C06.replaced-vs-count"]++
				if d.Replaced > d.Count {
					out = append(out, v("C06", "replaced-exceeds-count", "count", "application %s task group %s: %d replaced of %d placeholders (after %s)", id, tg, d.Replaced, d.Count, st.Op))
				}
			}
		}
		// ---- placeholder timeout before any real allocation
		if st.Op.K == "TIMER_PH" {
			pa, qa := pre.Apps[st.Op.A], post.Apps[st.Op.A]
			if pa != nil && qa != nil && pa.TimerPh && pa.Allocated.IsZero() && (pa.State == "Accepted" || pa.State == "New") {
				counts["C06.timeout-before-real"]++
				spec := scn.App(st.Op.A)
				hard := spec != nil && spec.Gang == "Hard"
				hasLivePh := false
				for _, al := range qa.Allocs {
					if al.Ph {
						hasLivePh = true
					}
				}
				if hard {
					if qa.State != "Failing" && qa.State != "Failed" {
						out = append(out, v("C06", "timeout-hard-not-failing", "hard", "Hard gang application %s timed out before any real allocation but is %s", st.Op.A, qa.State))
					}
				} else {
					want := "Resuming"
					if !hasLivePh {
						want = "Accepted"
					}
					if qa.State != want && qa.State != "Resuming" && qa.State != "Accepted" {
						out = append(out, v("C06", "timeout-soft-not-resuming", "soft", "Soft gang application %s timed out before any real allocation but is %s", st.Op.A, qa.State))
					}
				}
				announced := map[string]bool{}
				for _, o := range st.Out {
					if o.T == "release" && o.Term == "TIMEOUT" {
						announced[o.Key] = true
					}
				}
				for _, k := range sortedKeys(pa.Allocs) {
					al := pa.Allocs[k]
					if al.Ph && !al.Preempted && !announced[k] {
						out = append(out, v("C06", "timeout-placeholder-not-released", "alloc", "placeholder %s of %s was allocated when the timeout fired but no TIMEOUT release was announced", k, st.Op.A))
					}
				}
				for _, k := range sortedKeys(qa.Asks) {
					if ask := qa.Asks[k]; ask.Ph && !ask.Allocated {
						out = append(out, v("C06", "timeout-placeholder-ask-left", "ask", "placeholder ask %s of %s is still pending after the timeout", k, st.Op.A))
					}
				}
			}
		}
		// ---- no placeholder outlives its application
		live := activeApps(post)
		for _, n := range sortedKeys(post.Nodes) {
			for _, k := range sortedKeys(post.Nodes[n].Allocs) {
				al := post.Nodes[n].Allocs[k]
				if al.Ph {
					counts["C06.placeholder-owner"]++
					if live[al.App] == nil {
						out = append(out, v("C06", "placeholder-outlives-app", "node", "node %s holds placeholder %s of application %s which left the partition (after %s)", n, k, al.App, st.Op))
					}
				}
			}
		}
		return out
	}}
}
