package props

import (
	"fmt"
	"strings"
	"sync"
	"time"

	"go.yaml.in/yaml/v3"

	"github.com/apache/yunikorn-core/pkg/common/configs"

	"verif/harness/internal/mc"
	"verif/harness/internal/world"
)

// C05: user and group quotas are enforced and follow the active configuration (engine E1).
// The reference is a pure function of the YAML document that was accepted last: per queue path the named limit of
// the user/group, else the wildcard limit, else none.

type c05Lim struct {
	res      map[string]int64 // nil = no resource limit
	apps     uint64
	wildcard bool // the entry that applies is the wildcard one
}

type c05Table struct {
	users  map[string]map[string]c05Lim // queue path -> user (or *) -> limit
	groups map[string]map[string]c05Lim
}

var c05Cache sync.Map

func c05Parse(doc string) *c05Table {
	if t, ok := c05Cache.Load(doc); ok {
		return t.(*c05Table)
	}
	t := &c05Table{users: map[string]map[string]c05Lim{}, groups: map[string]map[string]c05Lim{}}
	var sc configs.SchedulerConfig
	if err := yaml.Unmarshal([]byte(doc), &sc); err == nil && len(sc.Partitions) > 0 {
		var walk func(q *configs.QueueConfig, path string)
		walk = func(q *configs.QueueConfig, path string) {
			for _, l := range q.Limits {
				lim := c05Lim{apps: l.MaxApplications}
				if len(l.MaxResources) > 0 {
					lim.res = map[string]int64{}
					for k, s := range l.MaxResources {
						v, _ := refParse(s, k == "vcore")
						lim.res[k] = v
					}
				}
				for _, u := range l.Users {
					if t.users[path] == nil {
						t.users[path] = map[string]c05Lim{}
					}
					t.users[path][u] = lim
				}
				for _, g := range l.Groups {
					if t.groups[path] == nil {
						t.groups[path] = map[string]c05Lim{}
					}
					t.groups[path][g] = lim
				}
			}
			for i := range q.Queues {
				walk(&q.Queues[i], path+"."+strings.ToLower(q.Queues[i].Name))
			}
		}
		p := &sc.Partitions[0]
		if len(p.Queues) == 1 && strings.EqualFold(p.Queues[0].Name, "root") {
			root := p.Queues[0]
			if len(root.Limits) == 0 {
				root.Limits = p.Limits
			}
			walk(&root, "root")
		}
	}
	c05Cache.Store(doc, t)
	return t
}

func (t *c05Table) user(q, u string) (c05Lim, bool) {
	if l, ok := t.users[q][u]; ok {
		return l, true
	}
	l, ok := t.users[q]["*"]
	l.wildcard = ok
	return l, ok
}

func (t *c05Table) group(q, g string) (c05Lim, bool) {
	l, ok := t.groups[q][g]
	return l, ok
}

func inSubtree(appQueue, q string) bool {
	return appQueue == q || strings.HasPrefix(appQueue, q+".")
}

func pathUp(q string) []string {
	var out []string
	for q != "" {
		out = append(out, q)
		i := strings.LastIndex(q, ".")
		if i < 0 {
			break
		}
		q = q[:i]
	}
	return out
}

func appUsage(a *world.AppSnap) Res {
	t := Res{}
	for _, al := range a.Allocs {
		t = t.Add(al.Res)
	}
	return t
}

func exceeds(usage Res, lim map[string]int64) (string, bool) {
	for _, k := range sortedKeys(lim) {
		if usage[k] > lim[k] {
			return k, true
		}
	}
	return "", false
}

func daoLimEqual(dao map[string]int64, ref map[string]int64) bool {
	if len(dao) == 0 && len(ref) == 0 {
		return true
	}
	if len(dao) != len(ref) {
		return false
	}
	for k, v := range ref {
		if d, ok := dao[k]; !ok || d != v {
			return false
		}
	}
	return true
}

// limitDiffClass: stale = a limit is in force that the configuration does not define; lost = a configured limit is
// not in force; different = both exist and differ.
func limitDiffClass(max map[string]int64, apps uint64, ref c05Lim) string {
	inForce := len(max) > 0 || apps != 0
	configured := len(ref.res) > 0 || ref.apps != 0
	switch {
	case inForce && !configured:
		return "stale"
	case !inForce && configured:
		if ref.wildcard {
			return "lost-wildcard"
		}
		return "lost"
	}
	return "different"
}

func monC05() mc.Monitor {
	return funcMonitor{"C05", func(scn *world.Scenario, pre *world.Snap, st *world.Step, post *world.Snap, counts map[string]int) []mc.Violation {
		var out []mc.Violation
		if post == nil {
			return []mc.Violation{v("C05", "no-crash", st.Op.K, "op %s crashed/hung: %s%s", st.Op, firstLine(st.Panic), firstLine(st.Hang))}
		}
		if post.Gone {
			return nil
		}
		table := c05Parse(scn.Configs[post.Shim.Config])
		apps := activeApps(post)
		groupOf := func(appID, user string) string {
			if u := post.Users[user]; u != nil {
				return u.Groups[appID]
			}
			return ""
		}
		userUsage := func(u, q string) (Res, int) {
			t, n := Res{}, 0
			for _, id := range sortedKeys(apps) {
				a := apps[id]
				if a.User == u && inSubtree(a.Queue, q) && len(a.Allocs) > 0 {
					t = t.Add(appUsage(a))
					n++
				}
			}
			return t, n
		}
		groupUsage := func(g, q string) (Res, int) {
			t, n := Res{}, 0
			for _, id := range sortedKeys(apps) {
				a := apps[id]
				if groupOf(id, a.User) == g && inSubtree(a.Queue, q) && len(a.Allocs) > 0 {
					t = t.Add(appUsage(a))
					n++
				}
			}
			return t, n
		}
		// ---- enforcement: every allocation decided by the scheduler in this cycle
		if st.Op.K == "SCHEDULE" {
			seenApp := map[string]bool{}
			for _, c := range newlyCharged(pre, post) {
				a := apps[c.App]
				if a == nil || seenApp[c.App] {
					continue
				}
				seenApp[c.App] = true
				// "admits an application": its first allocation while it is not Running yet. An application that is Running,
				// lost its allocations and keeps an outstanding ask was admitted before (possibly before a reload brought the
				// limit): allocating for it again is not an admission.
				first := true
				if pa := pre.Apps[c.App]; pa != nil && (len(pa.Allocs) > 0 || pa.State == "Running") {
					first = false
				}
				g := groupOf(c.App, a.User)
				for _, q := range pathUp(a.Queue) {
					if lim, ok := table.user(q, a.User); ok {
						counts["C05.user-limit-at-decision"]++
						use, n := userUsage(a.User, q)
						if k, over := exceeds(use, lim.res); over {
							out = append(out, v("C05", "user-limit-exceeded", "resources", "scheduler allocated %s for application %s: user %s now uses %s in %s, the active configuration (#%d) limits %s to %d there", c.Key, c.App, a.User, use, q, post.Shim.Config, k, lim.res[k]))
						}
						if first && lim.apps != 0 && uint64(n) > lim.apps { //nolint:gosec
							out = append(out, v("C05", "user-limit-exceeded", "applications", "scheduler gave application %s its first allocation: user %s now runs %d applications in %s, the active configuration (#%d) allows %d", c.App, a.User, n, q, post.Shim.Config, lim.apps))
						}
					}
					if g != "" {
						if lim, ok := table.group(q, g); ok {
							counts["C05.group-limit-at-decision"]++
							use, n := groupUsage(g, q)
							if k, over := exceeds(use, lim.res); over {
								out = append(out, v("C05", "group-limit-exceeded", "resources", "scheduler allocated %s for application %s (group %s): the group now uses %s in %s, the active configuration (#%d) limits %s to %d there", c.Key, c.App, g, use, q, post.Shim.Config, k, lim.res[k]))
							}
							if first && lim.apps != 0 && uint64(n) > lim.apps { //nolint:gosec
								out = append(out, v("C05", "group-limit-exceeded", "applications", "scheduler gave application %s its first allocation: group %s now runs %d applications in %s, the active configuration (#%d) allows %d", c.App, g, n, q, post.Shim.Config, lim.apps))
							}
						}
					}
				}
			}
		}
		reloaded := ""
		if post.Mem["reloaded"] != "" {
			reloaded = "after-reload"
		} else {
			reloaded = "no-reload"
		}
		// ---- tracked usage = sum of the live allocations
		users := map[string]bool{}
		for _, a := range apps {
			users[a.User] = true
		}
		for u := range post.Users {
			users[u] = true
		}
		for _, u := range sortedKeys(users) {
			paths := map[string]bool{}
			for _, a := range apps {
				if a.User == u {
					for _, q := range pathUp(a.Queue) {
						paths[q] = true
					}
				}
			}
			if us := post.Users[u]; us != nil {
				for q := range us.Queues {
					if q != "" {
						paths[q] = true
					}
				}
			}
			for _, q := range sortedKeys(paths) {
				counts["C05.user-tracking"]++
				want, _ := userUsage(u, q)
				got := Res{}
				if us := post.Users[u]; us != nil {
					got = us.Queues[q].Usage
				}
				if !want.Equal(got) {
					out = append(out, v("C05", "user-usage-mismatch", reloaded, "user %s in %s: tracked usage %s, live allocations of the user's applications there sum to %s (after %s)", u, q, got, want, st.Op))
				}
			}
		}
		for _, g := range sortedKeys(post.Groups) {
			gs := post.Groups[g]
			for _, q := range sortedKeys(gs.Queues) {
				if q == "" {
					continue
				}
				counts["C05.group-tracking"]++
				want, _ := groupUsage(g, q)
				if !want.Equal(gs.Queues[q].Usage) {
					out = append(out, v("C05", "group-usage-mismatch", reloaded, "group %s in %s: tracked usage %s, live allocations of the applications tracked under the group sum to %s (after %s)", g, q, gs.Queues[q].Usage, want, st.Op))
				}
			}
		}
		// an application with live allocations whose user has a configured group limit on its path must be tracked under a group
		// ---- limits in force = limits of the latest accepted configuration
		for _, u := range sortedKeys(post.Users) {
			for _, q := range sortedKeys(post.Users[u].Queues) {
				if q == "" {
					continue
				}
				counts["C05.user-limit-in-force"]++
				ts := post.Users[u].Queues[q]
				ref, _ := table.user(q, u)
				if !daoLimEqual(ts.Max, ref.res) || ts.MaxApps != ref.apps {
					cls := limitDiffClass(ts.Max, ts.MaxApps, ref)
					if wl, ok := table.users[q]["*"]; ok && cls == "different" && !ref.wildcard && daoLimEqual(ts.Max, wl.res) && ts.MaxApps == wl.apps {
						cls = "lost" // the named limit is lost and the queue's wildcard limit applies instead: same defect as "lost"
					}
					out = append(out, v("C05", "user-limit-not-latest-config", cls+"/"+reloaded, "user %s in %s: limits in force are max %v / %d applications, the latest accepted configuration (#%d) says max %v / %d applications (after %s)", u, q, ts.Max, ts.MaxApps, post.Shim.Config, ref.res, ref.apps, st.Op))
				}
			}
		}
		for _, g := range sortedKeys(post.Groups) {
			for _, q := range sortedKeys(post.Groups[g].Queues) {
				if q == "" {
					continue
				}
				counts["C05.group-limit-in-force"]++
				ts := post.Groups[g].Queues[q]
				ref, _ := table.group(q, g)
				if !daoLimEqual(ts.Max, ref.res) || ts.MaxApps != ref.apps {
					out = append(out, v("C05", "group-limit-not-latest-config", limitDiffClass(ts.Max, ts.MaxApps, ref)+"/"+reloaded, "group %s in %s: limits in force are max %v / %d applications, the latest accepted configuration (#%d) says max %v / %d applications (after %s)", g, q, ts.Max, ts.MaxApps, post.Shim.Config, ref.res, ref.apps, st.Op))
				}
			}
		}
		return out
	}}
}

func c05Conf(root, p, a, b string) string {
	lim := func(indent int, s string) string {
		if s == "" {
			return ""
		}
		pad := strings.Repeat(" ", indent)
		out := pad + "limits:\n"
		for _, l := range strings.Split(s, ";") {
			f := strings.Fields(l) // kind name mem apps
			out += pad + "  - limit: \"" + f[1] + "\"\n"
			if f[0] == "u" {
				out += pad + "    users: [\"" + f[1] + "\"]\n"
			} else {
				out += pad + "    groups: [\"" + f[1] + "\"]\n"
			}
			if f[2] != "-" {
				out += pad + "    maxresources: {memory: " + f[2] + "}\n"
			}
			if f[3] != "-" {
				out += pad + "    maxapplications: " + f[3] + "\n"
			}
		}
		return out
	}
	return "partitions:\n  - name: default\n    queues:\n      - name: root\n        submitacl: \"*\"\n" + lim(8, root) +
		"        queues:\n          - name: p\n            parent: true\n" + lim(12, p) +
		"            queues:\n              - name: a\n" + lim(16, a) + "              - name: b\n" + lim(16, b)
}

// limit layouts: "kind name memory applications" separated by ';' (kind u|g, '-' = not set)
var c05Layouts = []string{
	c05Conf("", "", "", ""),                         // 0 no limits
	c05Conf("", "", "u u1 2 1", ""),                 // 1 named user on the leaf
	c05Conf("", "u * 3 -", "u u1 2 -", ""),          // 2 wildcard on the parent, named on the leaf
	c05Conf("", "g g1 3 2", "", ""),                 // 3 named group on the parent
	c05Conf("", "g g1 2 -;g * 4 -", "", ""),         // 4 named + wildcard group
	c05Conf("u * - 1", "", "", ""),                  // 5 wildcard user application limit on the root
	c05Conf("", "", "u u1 2 -;u * 1 -", "u * 1 -"),  // 6 named and wildcard on the same leaf
	c05Conf("", "", "u * 1 -", "u * 1 -"),           // 7 layout 6 with the named limit dropped
	c05Conf("u u1 4 -", "u u1 3 -", "", "g g2 1 -"), // 8 named user on two levels, group on the other leaf
	c05Conf("", "", "u u1 - 1", ""),                 // 9 named user, application limit only (no resource limit anywhere)
}

// three applications of one user under a limit of one application and no resource limit: the first runs, is removed
// (its tracker goes idle), the other two are waiting (sixth seeding round, C05-6)
func scnUGMAppsOnly(name string) *world.Scenario {
	s := scnUGM(name, []string{c05Layouts[9]}, []string{"SCHEDULE", "ASK", "RELEASE", "RELEASE_ALL", "APP_ADD", "APP_REMOVE"}, nil)
	s.Apps = append(s.Apps, world.AppSpec{ID: "app4", Queue: "root.p.a", User: "u1", Groups: []string{"g1"}})
	s.Asks = []world.AskSpec{
		{Key: "a1", App: "app1", Res: world.M(1), Create: 1001},
		{Key: "b1", App: "app2", Res: world.M(1), Create: 1002},
		{Key: "d1", App: "app4", Res: world.M(1), Create: 1003},
	}
	s.Prefix = []world.Op{op("NODE_ADD", "n1"), op("APP_ADD", "app1"), op("APP_ADD", "app2"), op("APP_ADD", "app4"), op("ASK", "a1"), op("ASK", "b1"), op("ASK", "d1"), op("SCHEDULE")}
	return s
}

// a reservation made while the user quota allowed the ask; the user's usage then grows through an RM-placed allocation
func scnUGMReserve(name string) *world.Scenario {
	s := scnUGM(name, []string{c05Conf("", "", "u u1 3 -", "")}, []string{"SCHEDULE", "ASK", "ASK_BOUND", "RELEASE"}, nil)
	s.Reserve = true
	// n3 is registered drained: it adds cluster (root queue) headroom but cannot take the ask, so the ask is reserved
	s.Nodes = []world.NodeSpec{{ID: "n1", Cap: world.M(2)}, {ID: "n2", Cap: world.M(2)}, {ID: "n3", Cap: world.M(1)}}
	s.Asks = []world.AskSpec{
		{Key: "a1", App: "app1", Res: world.M(2), Create: 1001},
		{Key: "c1", App: "app3", Res: world.M(2), Create: 1002},
		{Key: "x1", App: "app1", Res: world.M(1), Create: 1003},
		{Key: "a3", App: "app1", Res: world.M(1), Create: 1004, BoundNode: "n1"},
	}
	s.Prefix = []world.Op{op("NODE_ADD", "n1"), op("NODE_ADD", "n2"), op("NODE_ADD_DRAINED", "n3"), op("APP_ADD", "app1"), op("APP_ADD", "app3"), op("ASK", "a1"), op("SCHEDULE"), op("ASK", "c1"), op("SCHEDULE"), op("ASK", "x1"), op("SCHEDULE")}
	return s
}

func scnUGM(name string, confs []string, alphabet []string, prefix []world.Op) *world.Scenario {
	return &world.Scenario{
		Name:    name,
		Configs: confs,
		Nodes:   []world.NodeSpec{{ID: "n1", Cap: world.M(8)}},
		Apps: []world.AppSpec{
			{ID: "app1", Queue: "root.p.a", User: "u1", Groups: []string{"g1"}},
			{ID: "app2", Queue: "root.p.a", User: "u1", Groups: []string{"g1"}},
			{ID: "app3", Queue: "root.p.b", User: "u2", Groups: []string{"g2", "g1"}},
		},
		Asks: []world.AskSpec{
			{Key: "a1", App: "app1", Res: world.M(1), Create: 1001},
			{Key: "a2", App: "app1", Res: world.M(2), Create: 1002},
			{Key: "b1", App: "app2", Res: world.M(1), Create: 1003},
			{Key: "c1", App: "app3", Res: world.M(2), Create: 1004},
			{Key: "c2", App: "app3", Res: world.M(1), Create: 1005},
		},
		Alphabet: alphabet,
		Prefix:   prefix,
	}
}

func init() {
	sched := []string{"SCHEDULE", "ASK", "RELEASE", "RELEASE_ALL", "APP_ADD", "APP_REMOVE"}
	var quick, thorough []Run
	for i := 1; i < len(c05Layouts); i++ {
		n := fmt.Sprintf("ugm-sched-%d", i)
		mc.Register(&mc.ScenarioDef{Scn: scnUGM(n, []string{c05Layouts[i]}, sched, []world.Op{op("NODE_ADD", "n1"), op("APP_ADD", "app1"), op("ASK", "a1")}), Monitors: []mc.Monitor{monC05()}})
		quick = append(quick, Run{Scenario: n, Depth: 6, MapModes: []int{1}})
		thorough = append(thorough, Run{Scenario: n, Depth: 9, MapModes: []int{1, 2}})
	}
	mc.Register(&mc.ScenarioDef{Scn: scnUGMReserve("ugm-reserve"), Monitors: []mc.Monitor{monC05()}})
	quick = append(quick, Run{Scenario: "ugm-reserve", Depth: 5, MapModes: []int{1}})
	thorough = append(thorough, Run{Scenario: "ugm-reserve", Depth: 8, MapModes: []int{1, 2}})
	mc.Register(&mc.ScenarioDef{Scn: scnUGMAppsOnly("ugm-appsonly"), Monitors: []mc.Monitor{monC05()}})
	quick = append(quick, Run{Scenario: "ugm-appsonly", Depth: 6, MapModes: []int{1}})
	thorough = append(thorough, Run{Scenario: "ugm-appsonly", Depth: 6, MapModes: []int{1}})
	reload := []string{"SCHEDULE", "ASK", "RELEASE", "APP_ADD", "CONFIG"}
	mc.Register(&mc.ScenarioDef{Scn: scnUGM("ugm-reload", c05Layouts, reload, []world.Op{op("NODE_ADD", "n1"), op("APP_ADD", "app1"), op("ASK", "a1"), op("SCHEDULE")}), Monitors: []mc.Monitor{monC05()}})
	mc.Register(&mc.ScenarioDef{Scn: scnUGM("ugm-reload-2apps", c05Layouts, reload, []world.Op{op("NODE_ADD", "n1"), op("APP_ADD", "app1"), op("ASK", "a1"), op("SCHEDULE"), op("APP_ADD", "app3"), op("ASK", "c1"), op("SCHEDULE")}), Monitors: []mc.Monitor{monC05()}})
	quick = append(quick, Run{Scenario: "ugm-reload", Depth: 4, MapModes: []int{1}}, Run{Scenario: "ugm-reload-2apps", Depth: 3, MapModes: []int{1}})
	thorough = append(thorough, Run{Scenario: "ugm-reload", Depth: 7, MapModes: []int{1, 2}}, Run{Scenario: "ugm-reload-2apps", Depth: 5, MapModes: []int{1}})
	registerCheck(&CheckDef{Prop: "C05", Level: "model_checking", Technique: tE1, Quick: quick, Thorough: thorough,
		QuickBudget: 150 * time.Second, ThoroughBudget: 12 * time.Minute,
		Assumptions: []string{"limit reference = named entry, else wildcard entry, else none, per queue path of the latest accepted document", "the group of an application is the one the user tracker DAO reports for it"}})
}
