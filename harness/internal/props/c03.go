package props

import (
	"strings"

	"verif/harness/internal/mc"
	"verif/harness/internal/world"
)

// C03: resource accounting is conserved across app, queue, node and partition (state invariants after every op).
func monC03() mc.Monitor {
	return funcMonitor{"C03", func(scn *world.Scenario, pre *world.Snap, st *world.Step, post *world.Snap, counts map[string]int) []mc.Violation {
		if post == nil {
			return []mc.Violation{v("C03", "no-crash", st.Op.K, "op %s crashed/hung: %s%s", st.Op, firstLine(st.Panic), firstLine(st.Hang))}
		}
		return checkAccounting("C03", post, counts, st.Op.K)
	}}
}

func firstLine(s string) string {
	if i := strings.IndexByte(s, '\n'); i >= 0 {
		return s[:i]
	}
	return s
}

func checkAccounting(prop string, s *world.Snap, counts map[string]int, opk string) []mc.Violation {
	var out []mc.Violation
	if s.Gone {
		return out
	}
	apps := activeApps(s)
	// 1. application totals
	for _, id := range sortedKeys(apps) {
		a := apps[id]
		alloc, ph, pending := Res{}, Res{}, Res{}
		for _, al := range a.Allocs {
			if al.Ph {
				ph = ph.Add(al.Res)
			} else {
				alloc = alloc.Add(al.Res)
			}
		}
		for _, ask := range a.Asks {
			if !ask.Allocated {
				pending = pending.Add(ask.Res)
			}
		}
		if len(a.Allocs)+len(a.Asks) > 0 {
			counts["C03.app-totals"]++
		}
		if !alloc.Equal(a.Allocated) {
			out = append(out, v(prop, "app-allocated", "app", "application %s allocated %s != sum of its allocations %s (after %s)", id, a.Allocated, alloc, opk))
		}
		if !ph.Equal(a.Placeholder) {
			out = append(out, v(prop, "app-placeholder", "app", "application %s placeholder total %s != sum of its placeholder allocations %s (after %s)", id, a.Placeholder, ph, opk))
		}
		if !pending.Equal(a.Pending) {
			out = append(out, v(prop, "app-pending", "app", "application %s pending %s != sum of its unallocated asks %s (after %s)", id, a.Pending, pending, opk))
		}
		if a.Allocated.HasNegative() || a.Placeholder.HasNegative() || a.Pending.HasNegative() {
			out = append(out, v(prop, "negative", "app", "application %s has a negative total: alloc %s ph %s pending %s", id, a.Allocated, a.Placeholder, a.Pending))
		}
	}
	// 2. queue totals: leaf = sum over its applications, parent = sum over children
	for _, p := range sortedKeys(s.Queues) {
		q := s.Queues[p]
		wantAlloc, wantPending, wantPreempting := Res{}, Res{}, Res{}
		if q.Leaf {
			for _, id := range q.Apps {
				a := s.Apps[id]
				if a == nil {
					out = append(out, v(prop, "queue-app-unknown", "queue", "queue %s lists application %s which the partition does not know", p, id))
					continue
				}
				wantAlloc = wantAlloc.Add(a.Allocated).Add(a.Placeholder)
				wantPending = wantPending.Add(a.Pending)
				for _, al := range a.Allocs {
					if al.Preempted {
						wantPreempting = wantPreempting.Add(al.Res)
					}
				}
			}
		} else {
			for _, c := range q.Children {
				wantAlloc = wantAlloc.Add(s.Queues[c].Allocated)
				wantPending = wantPending.Add(s.Queues[c].Pending)
				wantPreempting = wantPreempting.Add(s.Queues[c].Preempting)
			}
		}
		if !wantAlloc.IsZero() || !q.Allocated.IsZero() || !wantPending.IsZero() {
			counts["C03.queue-totals"]++
		}
		kind := "parent"
		if q.Leaf {
			kind = "leaf"
		}
		if !wantAlloc.Equal(q.Allocated) {
			out = append(out, v(prop, "queue-allocated", kind, "%s queue %s allocated %s != expected sum %s (after %s)", kind, p, q.Allocated, wantAlloc, opk))
		}
		if !wantPending.Equal(q.Pending) {
			out = append(out, v(prop, "queue-pending", kind, "%s queue %s pending %s != expected sum %s (after %s)", kind, p, q.Pending, wantPending, opk))
		}
		if !wantPreempting.Equal(q.Preempting) {
			out = append(out, v(prop, "queue-preempting", kind, "%s queue %s preempting %s != sum of preempted allocations present %s (after %s)", kind, p, q.Preempting, wantPreempting, opk))
		}
		if q.Allocated.HasNegative() || q.Pending.HasNegative() || q.Preempting.HasNegative() {
			out = append(out, v(prop, "negative", "queue", "queue %s has a negative total: alloc %s pending %s preempting %s", p, q.Allocated, q.Pending, q.Preempting))
		}
	}
	// every active application is in exactly its leaf queue
	for _, id := range sortedKeys(apps) {
		a := apps[id]
		if q := s.Queues[a.Queue]; q != nil && a.HasQueue {
			found := false
			for _, x := range q.Apps {
				if x == id {
					found = true
				}
			}
			if !found {
				out = append(out, v(prop, "app-not-in-queue", "app", "active application %s (state %s) names queue %s which does not list it", id, a.State, a.Queue))
			}
		}
	}
	// 3. node <-> application agreement and root total
	nodeSum := Res{}
	inflight := Res{}
	for _, n := range sortedKeys(s.Nodes) {
		node := s.Nodes[n]
		nodeSum = nodeSum.Add(node.Allocated)
		if node.Allocated.HasNegative() || node.Occupied.HasNegative() {
			out = append(out, v(prop, "negative", "node", "node %s has a negative total: allocated %s occupied %s", n, node.Allocated, node.Occupied))
		}
		for _, k := range sortedKeys(node.Allocs) {
			na := node.Allocs[k]
			if na.Foreign {
				continue
			}
			counts["C03.node-alloc-owner"]++
			a := apps[na.App]
			if a == nil {
				out = append(out, v(prop, "node-alloc-orphan", "no-live-app", "allocation %s on node %s belongs to application %s which is not a live application of the partition (after %s)", k, n, na.App, opk))
				continue
			}
			if al, ok := a.Allocs[k]; ok {
				if al.Node != n || !al.Res.Equal(na.Res) {
					out = append(out, v(prop, "node-alloc-mismatch", "node", "allocation %s: node %s holds %s, application says node %s res %s", k, n, na.Res, al.Node, al.Res))
				}
				continue
			}
			if _, ok := inflightReal(a, k); ok {
				inflight = inflight.Add(na.Res)
				continue
			}
			out = append(out, v(prop, "node-alloc-orphan", "not-listed", "allocation %s on node %s is not listed by its application %s and is not the real half of an in-flight swap (after %s)", k, n, na.App, opk))
		}
	}
	for _, id := range sortedKeys(apps) {
		a := apps[id]
		for _, k := range sortedKeys(a.Allocs) {
			al := a.Allocs[k]
			counts["C03.app-alloc-on-node"]++
			node := s.Nodes[al.Node]
			if node == nil {
				out = append(out, v(prop, "app-alloc-orphan", "no-node", "application %s lists allocation %s on node %s which is not registered (after %s)", id, k, al.Node, opk))
				continue
			}
			if _, ok := node.Allocs[k]; !ok {
				out = append(out, v(prop, "app-alloc-orphan", "not-on-node", "application %s lists allocation %s on node %s but the node does not hold it (after %s)", id, k, al.Node, opk))
			}
		}
	}
	if root := s.Queues["root"]; root != nil {
		if !nodeSum.IsZero() || !root.Allocated.IsZero() {
			counts["C03.root-vs-nodes"]++
		}
		if !root.Allocated.Add(inflight).Equal(nodeSum) {
			out = append(out, v(prop, "root-vs-nodes", "root", "root allocated %s + in-flight real halves %s != sum of node allocated %s (after %s)", root.Allocated, inflight, nodeSum, opk))
		}
	}
	// 4. user / group trackers never negative
	for _, u := range sortedKeys(s.Users) {
		for p, t := range s.Users[u].Queues {
			if t.Usage.HasNegative() {
				out = append(out, v(prop, "negative", "user", "user %s usage on %s is negative: %s", u, p, t.Usage))
			}
		}
	}
	for _, g := range sortedKeys(s.Groups) {
		for p, t := range s.Groups[g].Queues {
			if t.Usage.HasNegative() {
				out = append(out, v(prop, "negative", "group", "group %s usage on %s is negative: %s", g, p, t.Usage))
			}
		}
	}
	// 5. terminal rule: nothing the shim knows of is left => every ledger is exactly zero
	if len(s.Shim.Keys) == 0 && len(s.Shim.Pending) == 0 {
		counts["C03.terminal-zero"]++
		for _, p := range sortedKeys(s.Queues) {
			q := s.Queues[p]
			if !q.Allocated.IsZero() || !q.Pending.IsZero() || !q.Preempting.IsZero() {
				out = append(out, v(prop, "leak", "queue", "everything released/removed but queue %s still has allocated %s pending %s preempting %s (after %s)", p, q.Allocated, q.Pending, q.Preempting, opk))
			}
		}
		for _, n := range sortedKeys(s.Nodes) {
			if !s.Nodes[n].Allocated.IsZero() {
				out = append(out, v(prop, "leak", "node", "everything released/removed but node %s still has allocated %s (after %s)", n, s.Nodes[n].Allocated, opk))
			}
		}
		for _, u := range sortedKeys(s.Users) {
			for p, t := range s.Users[u].Queues {
				if !t.Usage.IsZero() {
					out = append(out, v(prop, "leak", "user", "everything released/removed but user %s still has usage %s on %s (after %s)", u, t.Usage, p, opk))
				}
			}
		}
		for _, g := range sortedKeys(s.Groups) {
			for p, t := range s.Groups[g].Queues {
				if !t.Usage.IsZero() {
					out = append(out, v(prop, "leak", "group", "everything released/removed but group %s still has usage %s on %s (after %s)", g, t.Usage, p, opk))
				}
			}
		}
		for _, id := range sortedKeys(apps) {
			a := apps[id]
			if !a.Allocated.IsZero() || !a.Placeholder.IsZero() || !a.Pending.IsZero() {
				out = append(out, v(prop, "leak", "app", "everything released/removed but application %s still has alloc %s ph %s pending %s (after %s)", id, a.Allocated, a.Placeholder, a.Pending, opk))
			}
		}
	}
	return out
}
