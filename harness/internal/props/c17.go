package props

import (
	"encoding/json"
	"fmt"
	"os"
	"regexp"
	"strings"
	"time"

	"verif/harness/internal/mc"
	"verif/harness/internal/world"
)

// C17: placement puts applications only where rules and ACLs allow. Bounded exhaustive enumeration (E3) of
// rule chains x ACL layouts x users x requested queues x tags x forced flag, every case submitted to the REAL core
// (ClusterContext, UpdateApplication path) and compared with an independent evaluator of the documented placement
// semantics that is given the queue tree as it is at that moment (so cases also start from non-initial trees with
// queues created by earlier applications).

type c17Filter struct {
	Type   string   `json:"type,omitempty"` // "", allow, deny
	Users  []string `json:"users,omitempty"`
	Groups []string `json:"groups,omitempty"`
}

type c17Rule struct {
	Name   string    `json:"name"`
	Value  string    `json:"value,omitempty"`
	Create bool      `json:"create,omitempty"`
	Filter c17Filter `json:"filter,omitempty"`
	Parent *c17Rule  `json:"parent,omitempty"`
}

type c17Cfg struct {
	Rules   []c17Rule         `json:"rules"`
	Submit  map[string]string `json:"submitacl"` // queue path -> ACL string
	Admin   map[string]string `json:"adminacl"`
	Default bool              `json:"defaultQueue"` // root.default exists
}

type c17Case struct {
	// ReloadedFrom, when set, is the configuration the scheduler was started with; Cfg was then loaded by a reload
	ReloadedFrom *c17Cfg       `json:"reloadedFrom,omitempty"`
	Cfg          c17Cfg        `json:"config"`
	App          world.AppSpec `json:"application"`
	Queues       []string      `json:"existingQueues"`
}

func (r c17Rule) yaml(ind string) string {
	s := ind + "- name: " + r.Name + "\n"
	return s + r.body(ind+"  ")
}

func (r c17Rule) body(ind string) string {
	s := ""
	if r.Value != "" {
		s += ind + "value: " + r.Value + "\n"
	}
	if r.Create {
		s += ind + "create: true\n"
	}
	if r.Filter.Type != "" || len(r.Filter.Users) > 0 || len(r.Filter.Groups) > 0 {
		s += ind + "filter:\n"
		if r.Filter.Type != "" {
			s += ind + "  type: " + r.Filter.Type + "\n"
		}
		if len(r.Filter.Users) > 0 {
			s += ind + "  users: [" + strings.Join(r.Filter.Users, ", ") + "]\n"
		}
		if len(r.Filter.Groups) > 0 {
			s += ind + "  groups: [" + strings.Join(r.Filter.Groups, ", ") + "]\n"
		}
	}
	if r.Parent != nil {
		s += ind + "parent:\n" + ind + "  name: " + r.Parent.Name + "\n" + r.Parent.body(ind+"  ")
	}
	return s
}

func (c c17Cfg) yaml() string {
	acl := func(path, ind string) string {
		s := ""
		if v, ok := c.Submit[path]; ok {
			s += ind + "submitacl: \"" + v + "\"\n"
		}
		if v, ok := c.Admin[path]; ok {
			s += ind + "adminacl: \"" + v + "\"\n"
		}
		return s
	}
	s := "partitions:\n  - name: default\n"
	if len(c.Rules) > 0 {
		s += "    placementrules:\n"
		for _, r := range c.Rules {
			s += r.yaml("      ")
		}
	}
	s += "    queues:\n      - name: root\n" + acl("root", "        ") + "        queues:\n"
	s += "          - name: a\n" + acl("root.a", "            ")
	s += "          - name: p\n            parent: true\n" + acl("root.p", "            ") +
		"            childtemplate:\n              maxapplications: 3\n            queues:\n              - name: x\n" + acl("root.p.x", "                ")
	if c.Default {
		s += "          - name: default\n"
	}
	return s
}

// ---------------------------------------------------------------- reference evaluator

var c17NameRE = regexp.MustCompile(`^[a-zA-Z0-9_:#/@-]{1,64}$`)

const c17Recovery = "root.@recovery@"

type c17Tree map[string]*world.QueueSnap

func (t c17Tree) get(path string) *world.QueueSnap { return t[strings.ToLower(path)] }

func aclAllows(acl string, user string, groups []string) bool {
	if strings.TrimSpace(acl) == "*" {
		return true
	}
	f := strings.Split(acl, " ")
	for _, u := range strings.Split(f[0], ",") {
		if u != "" && u == user {
			return true
		}
		if u == "*" {
			return true
		}
	}
	if len(f) > 1 {
		for _, g := range strings.Split(f[1], ",") {
			for _, ug := range groups {
				if g != "" && g == ug {
					return true
				}
			}
			if g == "*" {
				return true
			}
		}
	}
	return false
}

// access: the submit or admin ACL of the queue or of an ancestor admits the user; the recovery queue admits nobody.
func (c c17Cfg) access(t c17Tree, path string, app *world.AppSpec) bool {
	path = strings.ToLower(path)
	if path == c17Recovery {
		return false
	}
	for p := path; p != ""; {
		if aclAllows(c.Submit[p], app.User, app.Groups) || aclAllows(c.Admin[p], app.User, app.Groups) {
			return true
		}
		i := strings.LastIndex(p, ".")
		if i < 0 {
			break
		}
		p = p[:i]
	}
	return false
}

func (f c17Filter) admits(app *world.AppSpec) bool {
	allow := f.Type != "deny"
	if len(f.Users) == 0 && len(f.Groups) == 0 {
		return allow
	}
	// documented: a single entry that contains regular expression characters is an expression, otherwise the entries
	// are names
	match := func(entries []string, name string) bool {
		if len(entries) == 1 && strings.ContainsAny(entries[0], "^$*+?()[{}|") {
			re, err := regexp.Compile(entries[0])
			return err == nil && re.MatchString(name)
		}
		for _, e := range entries {
			if e == name {
				return true
			}
		}
		return false
	}
	if match(f.Users, app.User) {
		return allow
	}
	for _, g := range app.Groups {
		if match(f.Groups, g) {
			return allow
		}
	}
	return !allow
}

// eval returns the queue a rule yields ("" = rule does not apply), or fail=true when rule execution fails.
func (r *c17Rule) eval(t c17Tree, app *world.AppSpec) (string, bool) {
	var q string
	qualifiedPrefix := "root."
	switch r.Name {
	case "provided":
		q = app.Queue
	case "tag":
		q = app.Tags[strings.ToLower(r.Value)]
	case "user":
		q = app.User
	case "fixed":
		q = strings.ToLower(r.Value)
		qualifiedPrefix = "root"
	}
	if q == "" {
		return "", false
	}
	if !r.Filter.admits(app) {
		return "", false
	}
	full := ""
	if r.Name != "user" && strings.HasPrefix(q, qualifiedPrefix) {
		for _, part := range strings.Split(q, ".") {
			if !c17NameRE.MatchString(part) {
				return "", true
			}
		}
		full = q
	} else {
		child := q
		if r.Name != "fixed" {
			child = strings.ReplaceAll(q, ".", "_dot_")
			if !c17NameRE.MatchString(child) {
				return "", true
			}
		}
		parent := "root"
		if r.Parent != nil {
			pn, fail := r.Parent.eval(t, app)
			if fail {
				return "", true
			}
			if pn == "" {
				return "", false
			}
			if !strings.HasPrefix(pn, "root.") {
				pn = "root." + pn
			}
			if pq := t.get(pn); pq != nil && pq.Leaf {
				return "", true
			}
			parent = pn
		}
		full = parent + "." + child
	}
	if !r.Create && t.get(full) == nil {
		return "", false
	}
	return full, false
}

type c17Verdict struct {
	Accepted bool
	Queue    string
	Why      string
	Unspec   bool // the statement does not fix the outcome (only the invariants are checked)
}

func (c c17Cfg) place(t c17Tree, app *world.AppSpec) c17Verdict {
	rules := c.Rules
	if len(rules) == 0 {
		rules = []c17Rule{{Name: "provided"}}
	}
	n := len(rules) + 1 // + the implicit recovery rule
	chosen := ""
	for i := 0; i < n; i++ {
		name := ""
		if i < len(rules) {
			var fail bool
			name, fail = rules[i].eval(t, app)
			if fail {
				return c17Verdict{Why: fmt.Sprintf("rule %d (%s) fails", i, rules[i].Name)}
			}
		} else if app.Forced {
			name = c17Recovery
		}
		if i == n-1 && name == "" {
			if t.get("root.default") != nil {
				name = "root.default"
			}
		}
		if name == "" {
			continue
		}
		if strings.EqualFold(name, c17Recovery) {
			if app.Forced {
				chosen = c17Recovery
				break
			}
			// the recovery queue is only ever used for force created applications: the rule does not match
			continue
		}
		if q := t.get(name); q != nil {
			if !q.Leaf || !c.access(t, name, app) || q.State != "Active" {
				continue
			}
		} else {
			anc := name
			for t.get(anc) == nil {
				anc = anc[:strings.LastIndex(anc, ".")]
			}
			if !c.access(t, anc, app) {
				continue
			}
			if t.get(anc).Leaf {
				return c17Verdict{Why: "queue to create is below the leaf " + anc}
			}
		}
		chosen = name
		break
	}
	if chosen == "" {
		return c17Verdict{Why: "no rule matched"}
	}
	return c17Verdict{Accepted: true, Queue: strings.ToLower(chosen)}
}

// ---------------------------------------------------------------- enumeration

func c17Configs(thorough bool) []c17Cfg {
	filters := []c17Filter{{}, {Type: "allow", Users: []string{"u1"}}, {Type: "deny", Users: []string{"u1"}}, {Type: "allow", Groups: []string{"g1"}}}
	parents := []*c17Rule{nil, {Name: "fixed", Value: "p"}, {Name: "fixed", Value: "np", Create: true}, {Name: "tag", Value: "ns", Create: true}}
	if thorough {
		filters = append(filters, c17Filter{Type: "deny", Groups: []string{"g1"}}, c17Filter{Type: "allow", Users: []string{"u.*"}})
		parents = append(parents, &c17Rule{Name: "user", Create: true}, &c17Rule{Name: "fixed", Value: "p", Filter: c17Filter{Type: "deny", Users: []string{"u2"}}})
	}
	type kv struct{ name, value string }
	kinds := []kv{{"provided", ""}, {"user", ""}, {"tag", "ns"}, {"fixed", "a"}, {"fixed", "root.p.x"}, {"fixed", "root.p.dyn"}, {"fixed", "dyn"}}
	var single []c17Rule
	for _, k := range kinds {
		for _, cr := range []bool{false, true} {
			for _, f := range filters {
				for _, p := range parents {
					if k.name == "fixed" && strings.HasPrefix(k.value, "root") && p != nil {
						continue // rejected by the rule constructor
					}
					single = append(single, c17Rule{Name: k.name, Value: k.value, Create: cr, Filter: f, Parent: p})
				}
			}
		}
	}
	var chains [][]c17Rule
	chains = append(chains, nil) // no rules: implicit provided rule
	for _, r := range single {
		chains = append(chains, []c17Rule{r})
	}
	// chains of two over a reduced rule set
	var red []c17Rule
	for i, r := range single {
		if thorough && i%3 == 0 || i%13 == 0 {
			red = append(red, r)
		}
	}
	for _, a := range red {
		for _, b := range red {
			chains = append(chains, []c17Rule{a, b})
		}
	}
	type aclLayout struct{ submit, admin map[string]string }
	layouts := []aclLayout{{map[string]string{"root": "*"}, nil}}
	for _, a := range []string{"", "u1", " g1"} {
		for _, p := range []string{"", "u2", "u1"} {
			layouts = append(layouts, aclLayout{map[string]string{"root": "", "root.a": a, "root.p": p}, nil})
		}
	}
	layouts = append(layouts, aclLayout{map[string]string{"root": "", "root.p.x": "u1"}, map[string]string{"root.p": "u2"}})
	var out []c17Cfg
	for ci, ch := range chains {
		for li, l := range layouts {
			out = append(out, c17Cfg{Rules: ch, Submit: l.submit, Admin: l.admin, Default: (ci+li)%3 == 0})
		}
	}
	return out
}

func c17Apps() []world.AppSpec {
	var apps []world.AppSpec
	type ug struct {
		u string
		g []string
	}
	users := []ug{{"u1", []string{"g1"}}, {"u2", nil}, {"u3", []string{"g1", "g2"}}}
	reqs := []string{"", "a", "root.a", "root.p", "root.p.x", "root.p.new", "root.a.new", c17Recovery, "p.x", "root.A", "bad name", "root.p.n1.n2"}
	tags := []string{"", "a", "root.p.x", "nsq"}
	i := 0
	for _, u := range users {
		for _, rq := range reqs {
			for _, tg := range tags {
				for _, forced := range []bool{false, true} {
					if u.u == "u3" && (forced || tg == "nsq" || rq == "bad name" || rq == "root.A" || rq == "root.p.n1.n2") {
						continue // u3 only differs from u1 in its group list: reduced product
					}
					if forced && (tg == "root.p.x" || rq == "p.x" || rq == "root.A") {
						continue // keep the product small: forced only matters for the last rule
					}
					t := map[string]string{}
					if tg != "" {
						t["ns"] = tg
					}
					apps = append(apps, world.AppSpec{ID: fmt.Sprintf("app%03d", i), Queue: rq, User: u.u, Groups: u.g, Tags: t, Forced: forced})
					i++
				}
			}
		}
	}
	return apps
}

type c17Run struct {
	evals       int
	nontrivial  map[string]bool
	outcomes    map[string]bool
	found       []mc.Found
	fpSeen      map[string]int
	harness     []string
	rejectedCfg int
	configs     int
	samples     []interface{}
}

func (r *c17Run) fail(rule, fp string, c c17Case, format string, args ...interface{}) {
	r.fpSeen[fp]++
	if r.fpSeen[fp] > 2 {
		return
	}
	r.found = append(r.found, mc.Found{Scenario: "c17", Viol: mc.Violation{Prop: "C17", Rule: rule, FP: "C17:" + rule + ":" + fp, Detail: fmt.Sprintf(format, args...)}, Custom: c})
}

func ruleNames(c c17Cfg) string {
	var s []string
	for _, r := range c.Rules {
		n := r.Name
		if r.Create {
			n += "+create"
		}
		if r.Parent != nil {
			n += "<" + r.Parent.Name
		}
		s = append(s, n)
	}
	return strings.Join(s, ",")
}

func (r *c17Run) runConfig(cfg c17Cfg, apps []world.AppSpec, carryOver bool, via *c17Cfg) {
	scn := &world.Scenario{Name: "c17", Configs: []string{cfg.yaml()}, Apps: apps, Alphabet: []string{"APP_ADD", "APP_REMOVE", "CLEAN_QUEUES"}}
	if via != nil {
		// the scheduler starts with another document (same queues and rules, every ACL set) and is reloaded to cfg: the
		// active configuration is cfg, what the first document granted is gone
		scn.Configs = []string{via.yaml(), cfg.yaml()}
	}
	w, err := world.New(scn)
	if err == nil && via != nil {
		if st := w.Apply(world.Op{K: "CONFIG", N: 1}); st.Result != "ok" {
			w.Close()
			r.rejectedCfg++
			return
		}
	}
	if err != nil {
		// configuration rejected by validation: not a placement case
		r.rejectedCfg++
		if os.Getenv("C17_DEBUG") != "" && r.rejectedCfg < 4 {
			fmt.Fprintln(os.Stderr, "rejected:", err, "\n", cfg.yaml())
		}
		return
	}
	defer w.Close()
	r.configs++
	for ai := range apps {
		app := &apps[ai]
		pre := w.Snapshot()
		tree := c17Tree(pre.Queues)
		c := c17Case{Cfg: cfg, App: *app, Queues: sortedKeys(pre.Queues), ReloadedFrom: via}
		want := cfg.place(tree, app)
		st := w.Apply(world.Op{K: "APP_ADD", A: app.ID})
		r.evals++
		if st.Panic != "" || st.Hang != "" {
			r.fail("no-crash", "APP_ADD", c, "application submission crashed: %s%s", firstLine(st.Panic), firstLine(st.Hang))
			return
		}
		accepted, rejected, reason := false, false, ""
		for _, o := range st.Out {
			if o.T == "appacc" && o.App == app.ID {
				accepted = true
			}
			if o.T == "apprej" && o.App == app.ID {
				rejected = true
				reason = o.Msg
			}
		}
		post := w.Snapshot()
		got := post.Apps[app.ID]
		gotQueue := ""
		if accepted && got != nil {
			gotQueue = got.Queue
		}
		r.outcomes[fmt.Sprintf("%v|%s|%v", accepted, gotQueue, want.Unspec)] = true
		if want.Accepted || accepted {
			r.nontrivial[fmt.Sprintf("%s|%v|%v|%s", cfg.yaml(), carryOver, sortedKeys(pre.Queues), app.ID)] = true
		}
		if accepted == rejected {
			r.fail("one-answer", "answer", c, "application %s got accepted=%v rejected=%v", app.ID, accepted, rejected)
		}
		if rejected && strings.TrimSpace(reason) == "" {
			r.fail("reject-without-reason", "reason", c, "application %s was rejected without a reason", app.ID)
		}
		// ---- invariants that are literal parts of the statement
		if accepted && got != nil {
			q := post.Queues[got.Queue]
			preQ := pre.Queues[got.Queue]
			switch {
			case q == nil:
				r.fail("accepted-in-unknown-queue", "queue", c, "application accepted in queue %s which does not exist", got.Queue)
			case !q.Leaf:
				r.fail("accepted-in-parent-queue", "leaf", c, "application accepted in queue %s which is not a leaf", got.Queue)
			case preQ != nil && preQ.State != "Active":
				r.fail("accepted-in-inactive-queue", "state", c, "application accepted in queue %s which was %s", got.Queue, preQ.State)
			}
			if got.Queue == c17Recovery && !app.Forced {
				r.fail("recovery-queue-for-unforced-app", "recovery", c, "application %s (not force created) with requested queue %q was placed in the recovery queue by rules [%s]", app.ID, app.Queue, ruleNames(cfg))
			}
			if got.Queue != c17Recovery && !cfg.access(tree, got.Queue, app) {
				// for a created queue the ACL of the closest existing ancestor decides; access() walks up the configured ACLs
				r.fail("accepted-without-acl", "acl", c, "user %s %v was placed in %s although no submit/admin ACL on it or an ancestor admits the user", app.User, app.Groups, got.Queue)
			}
			if preQ == nil && q != nil && got.Queue != c17Recovery {
				// created: under a non leaf parent that existed or was created with it; valid parts; template of p
				for _, part := range strings.Split(got.Queue, ".") {
					if !c17NameRE.MatchString(part) {
						r.fail("created-invalid-name", "name", c, "queue %s created with an invalid name part %q", got.Queue, part)
					}
				}
				if q.Managed {
					r.fail("created-as-managed", "managed", c, "queue %s created by placement is marked managed", got.Queue)
				}
				if q.Parent == "root.p" && q.MaxApps != 3 {
					r.fail("template-not-applied", "template", c, "queue %s created under root.p has max applications %d, the parent's child template says 3", got.Queue, q.MaxApps)
				}
			}
		}
		if !accepted {
			// a rejected application leaves no queue behind
			for p := range post.Queues {
				if pre.Queues[p] == nil {
					r.fail("rejected-but-queue-created", "queue", c, "application %s was rejected but queue %s was created", app.ID, p)
				}
			}
		}
		// ---- agreement with the reference evaluator
		if !want.Unspec {
			if want.Accepted != accepted {
				r.fail("verdict-differs", fmt.Sprintf("want-accepted=%v", want.Accepted), c, "rules [%s], user %s %v, requested %q, tags %v, forced=%v, existing queues %v: reference says accepted=%v (%s %s), the core says accepted=%v (%s %s)",
					ruleNames(cfg), app.User, app.Groups, app.Queue, app.Tags, app.Forced, sortedKeys(pre.Queues), want.Accepted, want.Queue, want.Why, accepted, gotQueue, reason)
			} else if accepted && want.Queue != gotQueue {
				r.fail("queue-differs", "queue", c, "rules [%s], user %s %v, requested %q, tags %v, forced=%v, existing queues %v: reference places in %s, the core placed in %s",
					ruleNames(cfg), app.User, app.Groups, app.Queue, app.Tags, app.Forced, sortedKeys(pre.Queues), want.Queue, gotQueue)
			}
		}
		if len(r.samples) < 3 && accepted && r.evals%97 == 0 {
			r.samples = append(r.samples, c)
		}
		if !carryOver {
			if accepted {
				w.Apply(world.Op{K: "APP_REMOVE", A: app.ID})
			}
			w.Apply(world.Op{K: "CLEAN_QUEUES"})
			w.Apply(world.Op{K: "CLEAN_QUEUES"})
		}
	}
}

func c17Shard(tier string, shard, n int) *CustomResult {
	run := &c17Run{nontrivial: map[string]bool{}, outcomes: map[string]bool{}, fpSeen: map[string]int{}}
	cfgs := c17Configs(tier == "thorough")
	apps := c17Apps()
	deadline := shardDeadline(tier)
	skipped := 0
	for i, cfg := range cfgs {
		if i%n != shard {
			continue
		}
		if time.Now().After(deadline) {
			skipped++
			continue
		}
		run.runConfig(cfg, append([]world.AppSpec{}, apps...), false, nil)
		if i%2 == 0 {
			// every second configuration also as the target of a reload from a document that grants everything
			via := c17Cfg{Rules: cfg.Rules, Default: cfg.Default, Submit: map[string]string{}, Admin: map[string]string{}}
			for _, q := range []string{"root", "root.a", "root.p", "root.p.x"} {
				via.Submit[q] = "*"
				via.Admin[q] = "u1,u2,u3 g1,g2"
			}
			run.runConfig(cfg, append([]world.AppSpec{}, apps...), false, &via)
		}
		creates := false
		for _, r := range cfg.Rules {
			if r.Create || r.Parent != nil && r.Parent.Create {
				creates = true
			}
		}
		if creates {
			// only configurations that can create queues have trees that differ from the initial one
			run.runConfig(cfg, append([]world.AppSpec{}, apps...), true, nil)
		}
	}
	if len(run.samples) == 0 {
		run.samples = append(run.samples, c17Case{Cfg: cfgs[shard%len(cfgs)], App: apps[0]})
	}
	return &CustomResult{Coverage: map[string]interface{}{
		"evaluations": run.evals, "distinct_nontrivial": len(run.nontrivial), "configurations_loaded": run.configs, "configurations_rejected_by_validation": run.rejectedCfg,
		"samples": run.samples, "exhaustive": skipped == 0, "configurations_not_run_time_budget": skipped, "distinct_observed_outcomes": len(run.outcomes),
	}, Violations: run.found, Harness: run.harness}
}

// the placement decision and the creation of the queue are separated by the partition lock, a reload can land in between:
// registered when the package is initialised (the worker processes look the shard function up by name)
var c17Part = c14Part("C17", "c17ilv", "step-C17-", func(n string) bool {
	return strings.HasPrefix(n, "S32-") || strings.HasPrefix(n, "S25-") || strings.HasPrefix(n, "S6-")
})

func checkC17(tier string, seed int64) *CustomResult {
	res := runSharded("c17", tier, shardCount())
	r2 := c17Part(tier)
	res.Violations = append(res.Violations, r2.Violations...)
	res.Harness = append(res.Harness, r2.Harness...)
	for k, x := range r2.Coverage {
		if k == "exhaustive" {
			if b, ok := x.(bool); ok && !b {
				res.Coverage["exhaustive"] = false
			}
			continue
		}
		res.Coverage["interleaving_"+k] = x
	}
	res.Coverage["rule"] = "every rule chain of length 0..1 over {provided,user,tag,fixed(a|root.p.x|root.p.dyn|dyn)} x create x filter {none, allow u1, deny u1, allow group g1 (+2 thorough)} x parent rule {none, fixed p, fixed np+create, tag ns+create (may yield the leaf a) (+2 thorough)}, every pair of a reduced rule set, x 11 ACL layouts on root/a/p/x (+ root.default present or not) x users {u1[g1], u2[], u3[g1,g2]} x 12 requested queue names x 4 tag values x forced flag; every application is submitted to the real core twice per configuration: from the initial tree (application removed and dynamic queues cleaned afterwards) and with carry-over of created queues. non-trivial = the reference or the core accepts the application (distinct by configuration, tree and application)"
	res.Coverage["applications_per_configuration"] = len(c17Apps())
	res.Coverage["explanation"] = "the reference evaluator is given the queue tree the real core reports immediately before the submission"
	return res
}

func init() {
	ShardFuncs["c17"] = c17Shard
	registerCheck(&CheckDef{Prop: "C17", Level: "exploration", Technique: "bounded exhaustive enumeration of placement configurations x applications on the real core against an independent reference evaluator plus the statement's invariants", Custom: checkC17, Replay: replayC17,
		Assumptions: []string{"user/group resolution is the one the shim supplies in the request (no OS/LDAP lookup)", "name alphabets as listed in rule"}})
}

// replayC17: counterexamples of the interleaving part are schedules, the others are inputs of the enumeration
func replayC17(fp string, raw interface{}) int {
	if m, ok := raw.(map[string]interface{}); ok {
		if _, has := m["schedule"]; has {
			return replayC14(fp, raw)
		}
	}
	want, _ := json.Marshal(raw)
	cr := checkC17("quick", 0)
	for _, f := range cr.Violations {
		got, _ := json.Marshal(f.Custom)
		if f.Viol.FP == fp && string(got) == string(want) {
			fmt.Printf("violation: %s %s: %s\ninput: %s\nREPRODUCED\n", f.Viol.Prop, f.Viol.Rule, f.Viol.Detail, got)
			return 1
		}
	}
	for _, f := range cr.Violations {
		if f.Viol.FP == fp {
			got, _ := json.Marshal(f.Custom)
			fmt.Printf("violation with the same fingerprint: %s %s: %s\ninput: %s\nREPRODUCED (same class)\n", f.Viol.Prop, f.Viol.Rule, f.Viol.Detail, got)
			return 1
		}
	}
	fmt.Println("not reproduced")
	return 0
}
