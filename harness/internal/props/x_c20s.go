package props

import (
	"fmt"
	"strings"
	"time"

	"github.com/apache/yunikorn-core/pkg/events"
	"github.com/apache/yunikorn-scheduler-interface/lib/go/si"

	"verif/harness/internal/ilv"
	"verif/harness/internal/mc"
)

// C20, stream part (engine E2): the publisher body of the event system (ring buffer Add followed by PublishEvent,
// for every event) runs against a subscriber that creates a stream at an arbitrary moment. Every interleaving at
// lock granularity is enumerated (the bodies are small: no preemption bound is needed). Oracle: the consumer sees
// consecutive ids without gap or repeat, ending with the newest event, containing every event recorded after the
// subscription returned and at most `count` events recorded before it began.

type c20sCase struct {
	Events   int    `json:"events"`
	Count    uint64 `json:"historyCount"`
	Capacity uint64 `json:"ringCapacity"`
	Schedule string `json:"schedule"`
}

func c20sExec(n int, count, capacity uint64, prefix []int) (*ilv.Result, string, string) {
	rb := events.VerifNewRingBuffer(capacity)
	es := events.VerifNewEventStreaming(rb)
	evs := make([]*si.EventRecord, n)
	for i := range evs {
		evs[i] = &si.EventRecord{TimestampNano: int64(i)}
	}
	var stream *events.EventStream
	subBegan, subReturned := false, false
	addBeganAfterReturn := make([]bool, n)
	addDoneBeforeBegin := make([]bool, n)
	pub := func() {
		for i, e := range evs {
			addBeganAfterReturn[i] = subReturned
			rb.Add(e)
			addDoneBeforeBegin[i] = !subBegan
			es.PublishEvent(e)
		}
	}
	sub := func() {
		subBegan = true
		stream = es.CreateEventStream("c20", count)
		subReturned = true
	}
	ilv.ExtraGoroutines = 1
	res := ilv.Run([]func(){pub, sub}, []string{"publisher", "subscriber"}, prefix, 10*time.Second)
	ilv.ExtraGoroutines = 0
	if res.Harness != "" || res.Deadlock != "" {
		return res, "harness", ""
	}
	// close the stream and collect what the consumer received
	es.RemoveEventStream(stream)
	var got []int64
	timeout := time.After(5 * time.Second)
loop:
	for {
		select {
		case e, ok := <-stream.Events:
			if !ok {
				break loop
			}
			if e == nil {
				// after RemoveEventStream the bridge may read the zero value from the closed local channel and forward it
				// (select with several ready cases): the statement ends at the close, so this is not judged
				continue
			}
			got = append(got, e.TimestampNano)
		case <-timeout:
			return res, "harness", "consumer channel was not closed after RemoveEventStream"
		}
	}
	verdict := ""
	for i := 1; i < len(got); i++ {
		if got[i] <= got[i-1] {
			verdict = fmt.Sprintf("out-of-order-or-repeat: consumer received ids %v", got)
			break
		}
	}
	if verdict == "" {
		for i := 1; i < len(got); i++ {
			if got[i] > got[i-1]+1 {
				verdict = fmt.Sprintf("gap: consumer received ids %v", got)
			}
		}
	}
	// (an event recorded before the subscription began but published after the registration is a live event for this
	// stream: the number of such events is not bounded by the requested history)
	if verdict == "" {
		for i := 0; i < n; i++ {
			if addBeganAfterReturn[i] {
				// must be delivered unless the stream was closed before the bridge forwarded it: it then is above the last received id
				found := false
				for _, g := range got {
					if g == int64(i) {
						found = true
					}
				}
				if !found && len(got) > 0 && got[len(got)-1] > int64(i) {
					verdict = fmt.Sprintf("gap: consumer received ids %v: event %d, recorded after the subscription returned, is missing", got, i)
				}
				if !found && (len(got) == 0 || got[len(got)-1] < int64(i)) {
					// still judge a gap between the history and the later events: the first later event must follow the last history id
				}
			}
		}
	}
	return res, fmt.Sprint(got), verdict
}

func checkC20Stream(tier string) (cov map[string]interface{}, found []mc.Found, harness []string) {
	execs, outcomes := 0, map[string]bool{}
	fpSeen := map[string]int{}
	for _, n := range []int{2, 3} {
		for _, count := range []uint64{0, 1, 2, 5} {
			for _, capacity := range []uint64{2, 4} {
				n, count, capacity := n, count, capacity
				st := ilv.Explore(20, 0, 1, 2*time.Minute, func(prefix []int) (*ilv.Result, string, string) {
					r, out, verdict := c20sExec(n, count, capacity, prefix)
					if verdict != "" && out != "harness" {
						cls := strings.SplitN(verdict, ":", 2)[0]
						fpSeen[cls]++
						if fpSeen[cls] <= 2 {
							found = append(found, mc.Found{Scenario: "c20-stream", Viol: v("C20", "stream-content", strings.SplitN(verdict, ":", 2)[0], "publisher of %d events || CreateEventStream(count=%d), ring capacity %d: %s", n, count, capacity, verdict),
								Custom: c20sCase{Events: n, Count: count, Capacity: capacity, Schedule: encodeChoices(prefix)}})
						}
					}
					if out == "harness" {
						harness = append(harness, "c20-stream: "+r.Harness+r.Deadlock+verdict)
					}
					outcomes[fmt.Sprintf("%d|%d|%d|%s", n, count, capacity, out)] = true
					return r, out, verdict
				}, func([]int, *ilv.Result, string) {}, func() bool { return len(harness) > 0 })
				execs += st.Executions
			}
		}
	}
	return map[string]interface{}{"stream_schedules_executed": execs, "stream_distinct_consumer_views": len(outcomes)}, found, harness
}
