package props

import (
	"verif/harness/internal/mc"
	"verif/harness/internal/world"
)

// C04: the allocation protocol seen by the shim is exactly-once and well-formed. Judged only from the SI traffic:
// pre.Shim is the shim's view before the request of this step, st.Out what the core answered.
func monC04() mc.Monitor {
	return funcMonitor{"C04", func(scn *world.Scenario, pre *world.Snap, st *world.Step, post *world.Snap, counts map[string]int) []mc.Violation {
		var out []mc.Violation
		if post == nil {
			return []mc.Violation{v("C04", "no-crash", st.Op.K, "op %s crashed/hung: %s%s", st.Op, firstLine(st.Panic), firstLine(st.Hang))}
		}
		m := pre.Shim
		// the shim's view including what it sent in this very step
		bound := map[string]string{}
		outstanding := map[string]bool{}
		for k, ks := range m.Keys {
			switch ks.State {
			case "bound", "zombie":
				bound[k] = ks.Node
			case "ask":
				outstanding[k] = true
			}
		}
		nodes := map[string]bool{}
		for n := range m.Nodes {
			nodes[n] = true
		}
		apps := map[string]string{}
		for a, s := range m.Apps {
			apps[a] = s
		}
		switch st.Op.K {
		case "ASK":
			outstanding[st.Op.A] = true
		case "ASK_BOUND":
			// the RM placed it itself: the core echoes it once
		case "APP_ADD":
			apps[st.Op.A] = "submitted"
		case "NODE_REMOVE":
			delete(nodes, st.Op.A)
		case "APP_REMOVE":
			apps[st.Op.A] = "removed"
		}
		pendingRel := map[string]bool{}
		for _, p := range m.Pending {
			pendingRel[p.Key+"/"+p.Term] = true
		}
		newSeen := map[string]bool{}
		appAnswers, nodeAnswers := 0, 0
		accepted := map[string]bool{}
		for _, o := range st.Out {
			switch o.T {
			case "newalloc":
				counts["C04.new-allocation"]++
				if st.Op.K == "ASK_BOUND" && o.Key == st.Op.A {
					spec := scn.Ask(o.Key)
					if spec == nil || spec.BoundNode != o.Node {
						out = append(out, v("C04", "echo-wrong-node", "echo", "echo of RM-bound allocation %s names node %s", o.Key, o.Node))
					}
					if newSeen[o.Key] {
						out = append(out, v("C04", "bound-twice", "echo", "allocation %s announced twice in one step", o.Key))
					}
					newSeen[o.Key] = true
					continue
				}
				if newSeen[o.Key] {
					out = append(out, v("C04", "bound-twice", "same-step", "allocation %s announced twice in one step", o.Key))
				}
				newSeen[o.Key] = true
				if n, isBound := bound[o.Key]; isBound {
					out = append(out, v("C04", "bound-twice", "already-bound", "allocation %s announced on %s but the shim already has it bound on %s and no release was announced", o.Key, o.Node, n))
				} else if !outstanding[o.Key] {
					out = append(out, v("C04", "alloc-for-unknown-ask", "ask", "new allocation %s announced but the shim has no outstanding ask with that key (op %s)", o.Key, st.Op))
				}
				if ks, ok := m.Keys[o.Key]; ok && ks.App != o.App {
					out = append(out, v("C04", "alloc-wrong-app", "app", "allocation %s announced for application %s, submitted for %s", o.Key, o.App, ks.App))
				}
				if s := apps[o.App]; s != "accepted" {
					out = append(out, v("C04", "alloc-for-unaccepted-app", "app", "new allocation %s announced for application %s which is %q in the shim's view", o.Key, o.App, s))
				}
				if !nodes[o.Node] {
					out = append(out, v("C04", "alloc-on-unregistered-node", "node", "new allocation %s announced on node %s which the shim has not registered or has removed", o.Key, o.Node))
				}
				delete(outstanding, o.Key)
				bound[o.Key] = o.Node
			case "release":
				counts["C04.release"]++
				_, isBound := bound[o.Key]
				known := isBound || outstanding[o.Key]
				// a STOPPED_BY_RM release answers the shim's own request of this step (release, app removal, node removal)
				if !known && o.Term == "STOPPED_BY_RM" {
					if _, had := m.Keys[o.Key]; had {
						known = true
					}
				}
				if !known {
					out = append(out, v("C04", "release-of-unknown", o.Term, "release (%s) announced for %s which is neither bound nor outstanding in the shim's view (op %s)", o.Term, o.Key, st.Op))
				}
				if o.Term != "STOPPED_BY_RM" {
					// may be repeated only while unconfirmed: a confirmed key is gone from the shim's view (caught above)
					pendingRel[o.Key+"/"+o.Term] = true
				} else {
					delete(bound, o.Key)
					delete(outstanding, o.Key)
				}
			case "appacc", "apprej":
				appAnswers++
				if o.T == "appacc" {
					accepted[o.App] = true
				}
				if st.Op.K != "APP_ADD" || o.App != st.Op.A {
					out = append(out, v("C04", "unsolicited-app-answer", o.T, "application answer %s for %s without a submission in this step (op %s)", o.T, o.App, st.Op))
				}
			case "nodeacc", "noderej":
				nodeAnswers++
				if (st.Op.K != "NODE_ADD" && st.Op.K != "NODE_ADD_DRAINED") || o.Node != st.Op.A {
					out = append(out, v("C04", "unsolicited-node-answer", o.T, "node answer %s for %s without a registration in this step (op %s)", o.T, o.Node, st.Op))
				}
			}
		}
		if st.Op.K == "APP_ADD" {
			counts["C04.app-answer"]++
			if appAnswers != 1 {
				out = append(out, v("C04", "app-answer-count", "count", "application %s received %d accepted/rejected answers, expected exactly one", st.Op.A, appAnswers))
			}
			if !accepted[st.Op.A] && appAnswers == 1 {
				// a rejected item leaves no trace: nothing but the rejected-application record may differ
				counts["C04.rejected-no-trace"]++
				if d := diffIgnoringRejected(pre, post, st.Op.A); d != "" {
					out = append(out, v("C04", "rejected-leaves-trace", "app", "rejected application %s left a trace: %s", st.Op.A, d))
				}
			}
		}
		if st.Op.K == "NODE_ADD" || st.Op.K == "NODE_ADD_DRAINED" {
			counts["C04.node-answer"]++
			if nodeAnswers != 1 {
				out = append(out, v("C04", "node-answer-count", "count", "node %s received %d accepted/rejected answers, expected exactly one", st.Op.A, nodeAnswers))
			}
		}
		return out
	}}
}

// diffIgnoringRejected compares the ledgers of two snapshots, ignoring the record of the rejected application.
func diffIgnoringRejected(pre, post *world.Snap, app string) string {
	a := ledger(pre, app)
	b := ledger(post, app)
	if a != b {
		return "before " + a + " after " + b
	}
	return ""
}

// ledger is the accounting view: queues, nodes, applications (except skip), users, groups, reservations.
func ledger(s *world.Snap, skip string) string {
	type L struct {
		Q map[string]*world.QueueSnap
		N map[string]*world.NodeSnap
		A map[string]*world.AppSnap
		U map[string]*world.UserSnap
		G map[string]*world.GroupSnap
		P world.PartSnap
	}
	l := L{Q: s.Queues, N: s.Nodes, A: map[string]*world.AppSnap{}, U: s.Users, G: s.Groups, P: s.Part}
	for k, a := range s.Apps {
		if k != skip {
			l.A[k] = a
		}
	}
	return world.J(l)
}

// C09: reservations stay consistent and exclusive.
func monC09() mc.Monitor {
	return funcMonitor{"C09", func(scn *world.Scenario, pre *world.Snap, st *world.Step, post *world.Snap, counts map[string]int) []mc.Violation {
		var out []mc.Violation
		if post == nil {
			return []mc.Violation{v("C09", "no-crash", st.Op.K, "op %s crashed/hung: %s%s", st.Op, firstLine(st.Panic), firstLine(st.Hang))}
		}
		if post.Gone {
			return nil
		}
		total := 0
		apps := activeApps(post)
		for _, id := range sortedKeys(post.Apps) {
			a := post.Apps[id]
			for _, k := range sortedKeys(a.Reservations) {
				n := a.Reservations[k]
				total++
				counts["C09.app-reservation"]++
				if a.Where != "active" {
					out = append(out, v("C09", "reservation-of-removed-app", "app", "application %s (%s) still holds a reservation for %s on %s (after %s)", id, a.Where, k, n, st.Op))
				}
				node := post.Nodes[n]
				if node == nil {
					out = append(out, v("C09", "reservation-on-removed-node", "node", "application %s holds a reservation for %s on node %s which is not registered (after %s)", id, k, n, st.Op))
				} else if node.Reservations[k] != id {
					out = append(out, v("C09", "views-differ", "app-not-node", "application %s holds a reservation for %s on node %s but the node does not list it (node has %v) (after %s)", id, k, n, node.Reservations, st.Op))
				}
				ask, ok := a.Asks[k]
				if !ok {
					out = append(out, v("C09", "reservation-without-ask", "removed", "application %s holds a reservation for %s which is not an ask of it any more (after %s)", id, k, st.Op))
				} else if ask.Allocated {
					out = append(out, v("C09", "reservation-of-allocated-ask", "allocated", "application %s holds a reservation for %s which is already allocated (after %s)", id, k, st.Op))
				}
			}
		}
		for _, n := range sortedKeys(post.Nodes) {
			node := post.Nodes[n]
			if len(node.Reservations) > 0 {
				counts["C09.node-reservation"]++
			}
			for _, k := range sortedKeys(node.Reservations) {
				id := node.Reservations[k]
				a := apps[id]
				if a == nil {
					out = append(out, v("C09", "views-differ", "node-no-app", "node %s lists a reservation %s of application %s which is not a live application (after %s)", n, k, id, st.Op))
				} else if a.Reservations[k] != n {
					out = append(out, v("C09", "views-differ", "node-not-app", "node %s lists a reservation %s of application %s but the application says %q (after %s)", n, k, id, a.Reservations[k], st.Op))
				}
			}
			if len(node.Reservations) > 1 {
				counts["C09.multi-reservation"]++
				for _, k := range sortedKeys(node.Reservations) {
					if spec := scn.Ask(k); spec == nil || spec.RequiredNode != n {
						out = append(out, v("C09", "node-multiple-reservations", "exclusive", "node %s carries %d reservations %v and %s does not require that node (after %s)", n, len(node.Reservations), sortedKeys(node.Reservations), k, st.Op))
					}
				}
			}
		}
		for _, p := range sortedKeys(post.Queues) {
			q := post.Queues[p]
			if !q.Leaf {
				continue
			}
			want := map[string]int{}
			for _, id := range q.Apps {
				if a := post.Apps[id]; a != nil && len(a.Reservations) > 0 {
					want[id] = len(a.Reservations)
				}
			}
			if len(want) > 0 || len(q.Reserved) > 0 {
				counts["C09.queue-view"]++
			}
			if world.J(want) != world.J(q.Reserved) {
				out = append(out, v("C09", "views-differ", "queue", "queue %s reports reserved applications %v but its applications hold %v (after %s)", p, q.Reserved, want, st.Op))
			}
		}
		if total > 0 {
			counts["C09.partition-counter"]++
			if post.Part.Reservations == 0 {
				out = append(out, v("C09", "partition-counter-zero", "counter", "%d reservation(s) exist but the partition's reservation counter is 0 (after %s)", total, st.Op))
			}
		}
		// step rule: a node reserved for one ask is not given to another through normal scheduling
		if st.Op.K == "SCHEDULE" {
			for _, c := range newlyCharged(pre, post) {
				pn := pre.Nodes[c.Node]
				if pn == nil || len(pn.Reservations) == 0 {
					continue
				}
				counts["C09.reserved-node-exclusive"]++
				if _, mine := pn.Reservations[c.Key]; mine {
					continue
				}
				spec := scn.Ask(c.Key)
				cancelled := spec != nil && spec.RequiredNode != ""
				for k := range pn.Reservations {
					if _, still := post.Nodes[c.Node].Reservations[k]; still {
						cancelled = false
					}
				}
				if !cancelled {
					out = append(out, v("C09", "reserved-node-given-to-other", "exclusive", "node %s was reserved for %v but the scheduler gave it to %s", c.Node, sortedKeys(pn.Reservations), c.Key))
				}
			}
		}
		return out
	}}
}

var lifecycle = map[string][]string{
	"New":        {"Accepted", "Rejected", "Failing", "Resuming"},
	"Accepted":   {"Running", "Completing", "Failing", "Resuming"},
	"Running":    {"Completing", "Failing"},
	"Completing": {"Running", "Completed"},
	"Failing":    {"Failed"},
	"Resuming":   {"Accepted"},
	"Completed":  {"Expired"},
	"Failed":     {"Expired"},
	"Rejected":   {"Expired"},
	"Expired":    {},
}

func allowed(from, to string) bool {
	for _, t := range lifecycle[from] {
		if t == to {
			return true
		}
	}
	return false
}

// C10: applications follow the documented life cycle.
func monC10() mc.Monitor {
	return funcMonitor{"C10", func(scn *world.Scenario, pre *world.Snap, st *world.Step, post *world.Snap, counts map[string]int) []mc.Violation {
		var out []mc.Violation
		if post == nil {
			return []mc.Violation{v("C10", "no-crash", st.Op.K, "op %s crashed/hung: %s%s", st.Op, firstLine(st.Panic), firstLine(st.Hang))}
		}
		// state log pairs
		for _, id := range sortedKeys(post.Apps) {
			qa := post.Apps[id]
			prev := "New"
			start := 0
			if pa := pre.Apps[id]; pa != nil {
				if len(pa.StateLog) > 0 {
					prev = pa.StateLog[len(pa.StateLog)-1]
				}
				start = len(pa.StateLog)
				if pa.State != prev && len(pa.StateLog) > 0 {
					out = append(out, v("C10", "state-not-logged", "log", "application %s reports state %s but its state log ends with %s", id, pa.State, prev))
				}
			}
			for i := start; i < len(qa.StateLog); i++ {
				counts["C10.transition"]++
				if !allowed(prev, qa.StateLog[i]) {
					out = append(out, v("C10", "illegal-transition", prev+"->"+qa.StateLog[i], "application %s changed state %s -> %s on %s, not in the documented life cycle", id, prev, qa.StateLog[i], st.Op))
				}
				prev = qa.StateLog[i]
			}
			if len(qa.StateLog) > 0 && qa.State != qa.StateLog[len(qa.StateLog)-1] {
				out = append(out, v("C10", "state-not-logged", "log", "application %s reports state %s but its state log ends with %s (after %s)", id, qa.State, qa.StateLog[len(qa.StateLog)-1], st.Op))
			}
		}
		// application update messages to the shim
		last := map[string]string{}
		for _, o := range st.Out {
			if o.T != "appupd" {
				continue
			}
			counts["C10.update-message"]++
			prev, ok := last[o.App]
			if !ok {
				prev = "New"
				if pa := pre.Apps[o.App]; pa != nil {
					prev = pa.State
				}
			}
			if !allowed(prev, o.State) {
				out = append(out, v("C10", "illegal-update-message", prev+"->"+o.State, "application update for %s announces %s after %s on %s, not in the documented life cycle", o.App, o.State, prev, st.Op))
			}
			last[o.App] = o.State
		}
		if post.Gone {
			return out
		}
		for _, id := range sortedKeys(post.Apps) {
			a := post.Apps[id]
			realAllocs, outstanding, phAllocs := 0, 0, 0
			for _, al := range a.Allocs {
				if al.Ph {
					phAllocs++
				} else {
					realAllocs++
				}
			}
			for _, ask := range a.Asks {
				if !ask.Allocated {
					outstanding++
				}
			}
			wasCompleted := a.State == "Completed"
			for _, sl := range a.StateLog {
				if sl == "Completed" {
					wasCompleted = true
				}
			}
			if wasCompleted {
				counts["C10.completed-empty"]++
				if realAllocs > 0 || outstanding > 0 {
					out = append(out, v("C10", "completed-with-work", "completed", "application %s is %s with %d live real allocation(s) and %d outstanding ask(s) (after %s)", id, a.State, realAllocs, outstanding, st.Op))
				}
			}
			// "one with neither becomes Completing and, undisturbed, Completed": the only thing that completes a Completing
			// application is its state timer, so it must be armed (or have expired with its callback still to run)
			if a.State == "Completing" && a.Where == "active" {
				counts["C10.completing-timer-armed"]++
				if !a.TimerState && post.Mem["late-timer:"+id] == "" {
					out = append(out, v("C10", "completing-without-timer", "timer", "application %s is Completing but no state timer is armed: it never becomes Completed (after %s)", id, st.Op))
				}
			}
			// terminated applications leave the queue and the active list
			if a.State == "Completed" || a.State == "Failed" {
				counts["C10.terminated-left"]++
				if a.Where == "active" {
					out = append(out, v("C10", "terminated-still-active", a.State, "application %s is %s but the partition still lists it as active (after %s)", id, a.State, st.Op))
				}
				for _, p := range sortedKeys(post.Queues) {
					for _, x := range post.Queues[p].Apps {
						if x == id {
							out = append(out, v("C10", "terminated-still-in-queue", a.State, "application %s is %s but queue %s still lists it (after %s)", id, a.State, p, st.Op))
						}
					}
				}
			}
			// an application with neither asks nor real allocations (and no placeholders) becomes Completing
			pa := pre.Apps[id]
			if pa != nil && a.Where == "active" && realAllocs == 0 && outstanding == 0 && phAllocs == 0 && len(a.Asks) == 0 {
				hadWork := len(pa.Asks) > 0 || len(pa.Allocs) > 0
				if hadWork && (pa.State == "Accepted" || pa.State == "Running") {
					counts["C10.emptied-completing"]++
					if a.State != "Completing" && a.State != "Completed" {
						out = append(out, v("C10", "emptied-not-completing", pa.State, "application %s has neither asks nor allocations after %s but is %s (was %s)", id, st.Op, a.State, pa.State))
					}
				}
			}
		}
		// an application with outstanding asks or live real allocations is never Completed: judged on the state the
		// application was in when a timer moved it to Completed (termination itself drops what was left)
		if st.Op.K == "TIMER_STATE" || st.Op.K == "TIMER_STATE_LATE" {
			pa, qa := pre.Apps[st.Op.A], post.Apps[st.Op.A]
			if pa != nil && qa != nil && pa.State != "Completed" && qa.State == "Completed" {
				counts["C10.completed-transition"]++
				outstanding, real := 0, 0
				for _, ask := range pa.Asks {
					if !ask.Allocated {
						outstanding++
					}
				}
				for _, al := range pa.Allocs {
					if !al.Ph {
						real++
					}
				}
				if outstanding > 0 || real > 0 {
					out = append(out, v("C10", "completed-with-work", "at-transition", "application %s went from %s to Completed on %s while it had %d outstanding ask(s) and %d live real allocation(s)", st.Op.A, pa.State, st.Op, outstanding, real))
				}
			}
		}
		// undisturbed, Completing becomes Completed when the timer fires
		if st.Op.K == "TIMER_STATE" {
			if pa := pre.Apps[st.Op.A]; pa != nil && pa.State == "Completing" && len(pa.Allocs) == 0 {
				counts["C10.completing-timer"]++
				if qa := post.Apps[st.Op.A]; qa == nil || (qa.State != "Completed") {
					s := "gone"
					if qa != nil {
						s = qa.State
					}
					out = append(out, v("C10", "completing-timer-no-completed", "timer", "application %s was Completing without allocations, its timer fired and it is %s", st.Op.A, s))
				}
			}
		}
		// terminated applications no longer accept asks
		if st.Op.K == "ASK" {
			spec := scn.Ask(st.Op.A)
			if pa := pre.Apps[spec.App]; pa == nil || pa.Where != "active" {
				counts["C10.ask-after-termination"]++
				rejected := false
				for _, o := range st.Out {
					if o.T == "allocrej" && o.Key == st.Op.A {
						rejected = true
					}
				}
				if !rejected {
					out = append(out, v("C10", "terminated-accepts-ask", "ask", "ask %s for terminated/removed application %s was not rejected", st.Op.A, spec.App))
				}
			}
		}
		return out
	}}
}
