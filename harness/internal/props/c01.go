package props

import (
	"verif/harness/internal/mc"
	"verif/harness/internal/world"
)

// C01: the scheduler never over-commits a node.
func monC01() mc.Monitor {
	return funcMonitor{"C01", func(scn *world.Scenario, pre *world.Snap, st *world.Step, post *world.Snap, counts map[string]int) []mc.Violation {
		var out []mc.Violation
		if post == nil {
			return []mc.Violation{v("C01", "no-crash", st.Op.K, "op %s crashed/hung: %s%s", st.Op, firstLine(st.Panic), firstLine(st.Hang))}
		}
		if post.Gone {
			return nil
		}
		// ---- state invariant: node books
		for _, n := range sortedKeys(post.Nodes) {
			node := post.Nodes[n]
			alloc, occ := Res{}, Res{}
			for _, a := range node.Allocs {
				if a.Foreign {
					occ = occ.Add(a.Res)
				} else {
					alloc = alloc.Add(a.Res)
				}
			}
			counts["C01.node-books"]++
			if !alloc.Equal(node.Allocated) {
				out = append(out, v("C01", "node-allocated", "sum", "node %s allocated %s != sum of allocations bound to it %s (after %s)", n, node.Allocated, alloc, st.Op))
			}
			if !occ.Equal(node.Occupied) {
				out = append(out, v("C01", "node-occupied", "sum", "node %s occupied %s != sum of foreign allocations %s (after %s)", n, node.Occupied, occ, st.Op))
			}
			want := node.Cap.Sub(node.Allocated).Sub(node.Occupied)
			if !want.Equal(node.Available) {
				out = append(out, v("C01", "node-available", "formula", "node %s available %s != capacity %s - allocated %s - occupied %s (after %s)", n, node.Available, node.Cap, node.Allocated, node.Occupied, st.Op))
			}
			if node.Available.HasNegative() && post.Mem["forced:"+n] == "" {
				out = append(out, v("C01", "node-overcommit", "negative-available", "node %s available %s is negative without any externally forced change (after %s)", n, node.Available, st.Op))
			}
		}
		// ---- what a node counts as occupied is what the shim last reported for the foreign pods on it
		for _, n := range sortedKeys(post.Nodes) {
			want := Res{}
			for _, fk := range sortedKeys(post.Shim.Foreign) {
				if post.Shim.Foreign[fk] != n {
					continue
				}
				if fs := scn.ForeignSpec(fk); fs != nil {
					if post.Shim.ForeignV[fk] == 2 {
						want = want.Add(fs.Res2)
					} else {
						want = want.Add(fs.Res)
					}
				}
			}
			counts["C01.node-occupied-vs-shim"]++
			if !want.Equal(post.Nodes[n].Occupied) {
				out = append(out, v("C01", "node-occupied-vs-reported", "foreign", "node %s counts %s as occupied, the foreign allocations the shim last reported for it add up to %s (after %s)", n, post.Nodes[n].Occupied, want, st.Op))
			}
		}
		// ---- step rule: every binding the scheduler itself charged to a node in a scheduling cycle
		if st.Op.K != "SCHEDULE" {
			return out
		}
		for _, c := range newlyCharged(pre, post) {
			counts["C01.scheduler-binding"]++
			pn := pre.Nodes[c.Node]
			if pn == nil {
				out = append(out, v("C01", "bind-unregistered-node", "node", "scheduler bound %s to node %s which was not registered", c.Key, c.Node))
				continue
			}
			if !pn.Schedulable {
				kind := "normal-ask"
				if sp := scn.Ask(c.Key); sp != nil && sp.RequiredNode != "" {
					kind = "required-node-ask"
				}
				out = append(out, v("C01", "bind-unschedulable-node", kind, "scheduler bound %s (%s) to node %s which was not schedulable", c.Key, kind, c.Node))
			}
			if !c.Res.FitsIn(pn.Available) {
				out = append(out, v("C01", "bind-does-not-fit", "fit", "scheduler bound %s (%s) to node %s with only %s available (capacity %s allocated %s occupied %s)", c.Key, c.Res, c.Node, pn.Available, pn.Cap, pn.Allocated, pn.Occupied))
			}
			// reservations: empty, or containing this ask, or all cancelled in this very step for a required node ask
			spec := scn.Ask(c.Key)
			if len(pn.Reservations) > 0 {
				if _, mine := pn.Reservations[c.Key]; !mine {
					cancelled := spec != nil && spec.RequiredNode != ""
					for k := range pn.Reservations {
						if _, still := post.Nodes[c.Node].Reservations[k]; still {
							cancelled = false
						}
					}
					if !cancelled {
						out = append(out, v("C01", "bind-on-node-reserved-for-other", "reservation", "scheduler bound %s to node %s which was reserved for %v", c.Key, c.Node, sortedKeys(pn.Reservations)))
					}
				}
			}
			if spec != nil && spec.RequiredNode != "" && spec.RequiredNode != c.Node {
				out = append(out, v("C01", "bind-not-required-node", "required", "ask %s requires node %s but was bound to %s", c.Key, spec.RequiredNode, c.Node))
			}
			// predicate: the last allocate=true call for (key,node) of this step must have accepted
			last, seen := false, false
			for _, p := range st.Preds {
				if p.Key == c.Key && p.Node == c.Node && p.Allocate {
					last, seen = p.OK, true
				}
			}
			if !seen || !last {
				out = append(out, v("C01", "bind-without-predicate", "predicate", "scheduler bound %s to node %s without an accepting predicate call (seen=%v ok=%v)", c.Key, c.Node, seen, last))
			}
		}
		// every newalloc announced by a scheduling cycle names the node the allocation is on
		for _, o := range st.Out {
			if o.T == "newalloc" {
				counts["C01.announce-node"]++
				n := post.Nodes[o.Node]
				if n == nil {
					out = append(out, v("C01", "announce-unknown-node", "node", "new allocation %s announced on node %s which is not registered", o.Key, o.Node))
				} else if _, ok := n.Allocs[o.Key]; !ok {
					out = append(out, v("C01", "announce-not-on-node", "node", "new allocation %s announced on node %s but the node does not hold it", o.Key, o.Node))
				}
			}
		}
		return out
	}}
}
