package props

import (
	"fmt"
	"strings"
	"time"

	siCommon "github.com/apache/yunikorn-scheduler-interface/lib/go/common"
	"github.com/apache/yunikorn-scheduler-interface/lib/go/si"

	"verif/harness/internal/mc"
	"verif/harness/internal/world"
)

// C13: no SI request can crash the core or corrupt its state. Fault enumeration on top of the explicit-state search
// (engine E1): into every explored state of the real core every message of a catalogue is injected (product over
// field domains: ids unknown/duplicate/empty, sub-messages unset, zero/negative resources, every termination
// type, unknown partitions and nodes, out-of-range enum values) under recover() and a hang watchdog.
// Oracle: never a panic or hang; an item that is invalid by the statement's list leaves the ledgers
// (nodes, queues, applications, users, reservations) exactly as they were and, where the protocol has a rejection
// message for it, is answered with it.

type c13Msg struct {
	Desc    string
	Class   string // fingerprint class
	Send    func(w *world.World)
	Invalid bool   // must leave the ledgers unchanged
	WantRej string // "allocrej:<key>" | "apprej:<id>" | "noderej:<id>" | ""
}

func c13Ledger(s *world.Snap) string {
	if s.Gone {
		return "gone"
	}
	apps := map[string]*world.AppSnap{}
	for id, a := range s.Apps {
		if a.Where == "active" {
			apps[id] = a
		}
	}
	part := s.Part
	part.Rules = ""
	return world.J(map[string]interface{}{"part": part, "queues": s.Queues, "apps": apps, "nodes": s.Nodes, "users": s.Users, "groups": s.Groups})
}

type resChoice struct {
	name string
	res  *si.Resource
	ok   bool
}

func c13Resources() []resChoice {
	q := func(m map[string]int64) *si.Resource {
		r := &si.Resource{Resources: map[string]*si.Quantity{}}
		for k, v := range m {
			r.Resources[k] = &si.Quantity{Value: v}
		}
		return r
	}
	return []resChoice{
		{"ok", q(map[string]int64{"memory": 1}), true},
		{"nil", nil, false},
		{"empty", q(nil), false},
		{"zero", q(map[string]int64{"memory": 0}), false},
		{"negative", q(map[string]int64{"memory": -1}), false},
		{"mixed-sign", q(map[string]int64{"memory": 1, "vcore": -1}), false},
		{"nil-quantity-free", &si.Resource{}, false},
	}
}

type c13Ctx struct {
	scn       *world.Scenario
	m         *world.ShimModel
	snap      *world.Snap
	appKnown  string // an accepted application ("" if none)
	appGone   string // a removed / rejected application id
	askKey    string // an outstanding ask of appKnown
	allocKey  string // a bound allocation
	allocApp  string
	phKey     string // a bound placeholder
	phApp     string
	nodeKnown string
	zombieKey string // an allocation whose node was removed, release not yet confirmed by the shim
}

func newC13Ctx(scn *world.Scenario, m *world.ShimModel, snap *world.Snap) *c13Ctx {
	c := &c13Ctx{scn: scn, m: m, snap: snap}
	for _, id := range sortedKeys(m.Apps) {
		switch m.Apps[id] {
		case "accepted":
			if c.appKnown == "" {
				c.appKnown = id
			}
		case "removed", "rejected":
			c.appGone = id
		}
	}
	for _, k := range sortedKeys(m.Keys) {
		ks := m.Keys[k]
		if m.Apps[ks.App] != "accepted" {
			continue
		}
		switch {
		case ks.State == "ask" && c.askKey == "":
			c.askKey = k
			c.appKnown = ks.App
		case ks.State == "bound" && ks.Ph && c.phKey == "":
			c.phKey, c.phApp = k, ks.App
		case ks.State == "bound" && c.allocKey == "":
			c.allocKey, c.allocApp = k, ks.App
		case ks.State == "zombie" && c.zombieKey == "":
			// the core announced its release (node removed) and the shim has not confirmed yet
			c.zombieKey = k
			if c.appKnown == "" {
				c.appKnown = ks.App
			}
		}
	}
	for _, n := range sortedKeys(m.Nodes) {
		c.nodeKnown = n
		break
	}
	return c
}

func pick(vals ...string) []string {
	seen := map[string]bool{}
	var out []string
	for _, v := range vals {
		if v == "\x00" || seen[v] {
			continue
		}
		seen[v] = true
		out = append(out, v)
	}
	return out
}

func orSkip(s string) string {
	if s == "" {
		return "\x00"
	}
	return s
}

// catalogue builds the messages for one state. full = the complete product; otherwise every field is varied over
// its whole domain while the others keep their default (first) value, plus all pairs with the resource domain.
func (c *c13Ctx) catalogue(full bool) []c13Msg {
	var out []c13Msg
	part := func(p string) string {
		switch p {
		case "ok":
			return world.PartitionName
		case "empty":
			return ""
		}
		return "[rm]nosuch"
	}
	// ---------------- allocations
	keys := pick("new-key", "", orSkip(c.askKey), orSkip(c.allocKey), orSkip(c.zombieKey))
	apps := pick(orSkip(c.appKnown), "", "nosuch-app", orSkip(c.appGone))
	if c.appKnown == "" {
		apps = pick("nosuch-app", "", orSkip(c.appGone))
	}
	nodes := pick("", orSkip(c.nodeKnown), "nosuch-node")
	parts := []string{"ok", "empty", "unknown"}
	ress := c13Resources()
	phs := [][2]string{{"", ""}, {"ph", ""}, {"ph", "tg"}}
	foreigns := []string{"", siCommon.AllocTypeDefault, siCommon.AllocTypeStatic, "bogus"}
	policies := []bool{false, true}
	addAlloc := func(key, app, node, pt string, rc resChoice, ph [2]string, foreign string, pol bool) {
		al := &si.Allocation{AllocationKey: key, ApplicationID: app, NodeID: node, PartitionName: part(pt), ResourcePerAlloc: rc.res,
			Placeholder: ph[0] != "", TaskGroupName: ph[1], AllocationTags: map[string]string{siCommon.CreationTime: "2000"}}
		if foreign != "" {
			al.AllocationTags[siCommon.Foreign] = foreign
		}
		if pol {
			al.PreemptionPolicy = &si.PreemptionPolicy{AllowPreemptSelf: true, AllowPreemptOther: true}
		}
		desc := fmt.Sprintf("allocation{key=%q app=%q node=%q partition=%s resource=%s placeholder=%v tg=%q foreign=%q policy=%v}", key, app, node, pt, rc.name, ph[0] != "", ph[1], foreign, pol)
		cat := func(v, known string) string {
			switch v {
			case "":
				return "empty"
			case known:
				return "known"
			}
			return "other"
		}
		cls := fmt.Sprintf("allocation/app=%s/node=%s/res=%s/ph=%s%s", cat(app, c.appKnown), cat(node, c.nodeKnown), rc.name, ph[0], ph[1])
		if foreign != "" {
			cls = fmt.Sprintf("foreign-allocation/node=%s/res=%s", cat(node, c.nodeKnown), rc.name)
		}
		msg := c13Msg{Desc: desc, Class: cls, Send: func(w *world.World) {
			w.SendRawAlloc(&si.AllocationRequest{RmID: world.RMID, Allocations: []*si.Allocation{al}})
		}}
		isForeign := foreign == siCommon.AllocTypeDefault || foreign == siCommon.AllocTypeStatic || foreign == "bogus"
		appOK := app != "" && app == c.appKnownOr(app)
		nodeOK := node == "" || c.m.Nodes[node] != ""
		switch {
		case pt != "ok":
			msg.Invalid = true
		case isForeign:
			// a foreign pod without resource requests is legal (it adds a zero sized entry): only negative quantities,
			// an unknown/empty node or an empty key make it invalid (an unknown foreign type is not in the statement's list)
			negative := rc.name == "negative" || rc.name == "mixed-sign"
			msg.Invalid = negative || key == "" || node == "" || !nodeOK
			if key == c.askKey || key == c.allocKey {
				msg.Invalid = false // a foreign allocation re-using a scheduler key: not in the statement's list, only no-crash
			}
		default:
			valid := appOK && rc.ok && key != "" && nodeOK && !(ph[0] != "" && ph[1] == "")
			msg.Invalid = !valid
			if key == c.askKey || key == c.allocKey {
				// an update of an existing key may be a legal no-op / resize / placement: only judged when the item itself is malformed
				msg.Invalid = !appOK || !rc.ok && rc.name != "ok" || !nodeOK
				if app != c.keyApp(key) {
					msg.Invalid = false
				}
			}
			if msg.Invalid && key != "" && (!appOK || !rc.ok || !nodeOK) && app != "" {
				msg.WantRej = "allocrej:" + key
			}
		}
		out = append(out, msg)
	}
	if full {
		for _, k := range keys {
			for _, a := range apps {
				for _, n := range nodes {
					for _, p := range parts {
						for _, r := range ress {
							for _, ph := range phs {
								for _, f := range foreigns {
									for _, pol := range policies {
										addAlloc(k, a, n, p, r, ph, f, pol)
									}
								}
							}
						}
					}
				}
			}
		}
	} else {
		for _, r := range ress {
			for _, k := range keys {
				addAlloc(k, apps[0], nodes[0], "ok", r, phs[0], "", false)
			}
			for _, a := range apps {
				addAlloc(keys[0], a, nodes[0], "ok", r, phs[0], "", false)
			}
			for _, n := range nodes {
				addAlloc(keys[0], apps[0], n, "ok", r, phs[0], "", false)
				addAlloc(keys[0], apps[0], n, "ok", r, phs[0], siCommon.AllocTypeDefault, false)
			}
			for _, p := range parts {
				addAlloc(keys[0], apps[0], nodes[0], p, r, phs[0], "", false)
			}
			for _, ph := range phs {
				addAlloc(keys[0], apps[0], nodes[0], "ok", r, ph, "", true)
			}
			for _, f := range foreigns {
				addAlloc(keys[0], apps[0], nodes[len(nodes)-1], "ok", r, phs[0], f, false)
				addAlloc(keys[0], "", "", "ok", r, phs[0], f, false)
			}
		}
	}
	// ---------------- releases
	relKeys := pick("", orSkip(c.askKey), orSkip(c.allocKey), orSkip(c.phKey), "nosuch-key")
	relApps := pick(orSkip(c.appKnown), orSkip(c.allocApp), orSkip(c.phApp), "", "nosuch-app")
	for _, k := range relKeys {
		for _, a := range relApps {
			for _, p := range parts {
				for t := int32(0); t <= 6; t++ {
					k, a, p, t := k, a, p, t
					msg := c13Msg{Class: "release", Desc: fmt.Sprintf("release{key=%q app=%q partition=%s type=%s}", k, a, p, si.TerminationType(t)),
						Send: func(w *world.World) {
							w.SendRawAlloc(&si.AllocationRequest{RmID: world.RMID, Releases: &si.AllocationReleasesRequest{AllocationsToRelease: []*si.AllocationRelease{
								{PartitionName: part(p), ApplicationID: a, AllocationKey: k, TerminationType: si.TerminationType(t), Message: "c13"}}}})
						}}
					knownApp := a != "" && c.m.Apps[a] == "accepted"
					switch {
					case p != "ok":
						msg.Invalid = true
					case a == "nosuch-app":
						msg.Invalid = true
					case knownApp && k == "nosuch-key":
						msg.Invalid = true
					case knownApp && k != "" && c.keyApp(k) != a:
						msg.Invalid = true // a key of another application does not exist in this one
					}
					out = append(out, msg)
				}
			}
		}
	}
	// ---------------- applications
	type ugiChoice struct {
		name string
		ugi  *si.UserGroupInformation
	}
	ugis := []ugiChoice{{"ok", &si.UserGroupInformation{User: "u1", Groups: []string{"g1"}}}, {"nil", nil}, {"empty-user", &si.UserGroupInformation{User: "", Groups: []string{"g1"}}},
		{"no-groups", &si.UserGroupInformation{User: "u1"}}, {"illegal-chars", &si.UserGroupInformation{User: "u 1!", Groups: []string{"g 1"}}}}
	queue := "root.a"
	for p := range c.snap.Queues {
		if c.snap.Queues[p].Leaf && c.snap.Queues[p].Managed {
			queue = p
			break
		}
	}
	appIDs := pick("c13-new-app", "", orSkip(c.appKnown))
	queues := []string{queue, "", "root.nosuch.queue", "root", "not a queue!"}
	tagSets := []map[string]string{nil, {siCommon.AppTagNamespaceResourceQuota: "{not json", "namespace.resourceguaranteed": "{\"memory\":\"abc\"}"}, {siCommon.AppTagCreateForce: "true"}}
	phAsks := []resChoice{{"none", nil, true}, ress[0], ress[4]}
	for _, id := range appIDs {
		for _, qn := range queues {
			for _, ug := range ugis {
				for ti, tags := range tagSets {
					for _, pa := range phAsks {
						for _, p := range parts {
							if !full && (boolInt(qn != queues[0])+boolInt(ug.name != "ok")+boolInt(ti != 0)+boolInt(pa.name != "none")+boolInt(p != "ok") > 2) {
								continue
							}
							id, qn, ug, tags, pa, p := id, qn, ug, tags, pa, p
							msg := c13Msg{Class: "application", Desc: fmt.Sprintf("application{id=%q queue=%q ugi=%s tags=%d placeholderAsk=%s partition=%s}", id, qn, ug.name, ti, pa.name, p),
								Send: func(w *world.World) {
									w.SendRawApp(&si.ApplicationRequest{RmID: world.RMID, New: []*si.AddApplicationRequest{{ApplicationID: id, QueueName: qn, PartitionName: part(p), Ugi: ug.ugi, Tags: tags,
										PlaceholderAsk: pa.res, ExecutionTimeoutMilliSeconds: 3600000, GangSchedulingStyle: "Soft"}}})
								}}
							if a := c.snap.Apps[id]; id != "" && a != nil && a.Where == "active" {
								// duplicate of an application the core still has (a completed one may be submitted again)
								msg.Invalid = true
								msg.WantRej = "apprej:" + id
							}
							if p != "ok" {
								msg.Invalid = true
							}
							out = append(out, msg)
						}
					}
				}
			}
		}
	}
	for _, id := range pick("nosuch-app", "", orSkip(c.appGone)) {
		for _, p := range parts {
			id, p := id, p
			out = append(out, c13Msg{Class: "application-remove", Invalid: true, Desc: fmt.Sprintf("remove-application{id=%q partition=%s}", id, p), Send: func(w *world.World) {
				w.SendRawApp(&si.ApplicationRequest{RmID: world.RMID, Remove: []*si.RemoveApplicationRequest{{ApplicationID: id, PartitionName: part(p)}}})
			}})
		}
	}
	// ---------------- nodes
	attrs := map[string]map[string]string{"ok": {siCommon.NodePartition: world.PartitionName}, "nil": nil, "no-partition": {"x": "y"}, "unknown-partition": {siCommon.NodePartition: "[rm]nosuch"}}
	for _, id := range pick("c13-new-node", "", orSkip(c.nodeKnown)) {
		for act := int32(0); act <= 7; act++ {
			for _, an := range []string{"ok", "nil", "no-partition", "unknown-partition"} {
				for _, rc := range []resChoice{ress[0], ress[1], ress[4]} {
					id, act, an, rc := id, act, an, rc
					a := act
					if act == 7 {
						a = 99
					}
					msg := c13Msg{Class: "node", Desc: fmt.Sprintf("node{id=%q action=%d attributes=%s resource=%s}", id, a, an, rc.name), Send: func(w *world.World) {
						w.SendRawNode(&si.NodeRequest{RmID: world.RMID, Nodes: []*si.NodeInfo{{NodeID: id, Action: si.NodeInfo_ActionFromRM(a), Attributes: attrs[an], SchedulableResource: rc.res}}})
					}}
					create := si.NodeInfo_ActionFromRM(a) == si.NodeInfo_CREATE || si.NodeInfo_ActionFromRM(a) == si.NodeInfo_CREATE_DRAIN
					switch {
					case an == "unknown-partition" || an == "nil" || an == "no-partition":
						msg.Invalid = true
						if create && id != "" {
							msg.WantRej = "noderej:" + id
						}
					case create && id == c.nodeKnown && id != "":
						msg.Invalid = true
						msg.WantRej = "noderej:" + id
					case !create && id != c.nodeKnown:
						msg.Invalid = true // update of a node that is not registered
					}
					out = append(out, msg)
				}
			}
		}
	}
	// ---------------- empty requests
	out = append(out,
		c13Msg{Class: "empty", Invalid: true, Desc: "allocation request without lists", Send: func(w *world.World) { w.SendRawAlloc(&si.AllocationRequest{RmID: world.RMID}) }},
		c13Msg{Class: "empty", Invalid: true, Desc: "allocation request with empty lists", Send: func(w *world.World) {
			w.SendRawAlloc(&si.AllocationRequest{RmID: world.RMID, Allocations: []*si.Allocation{}, Releases: &si.AllocationReleasesRequest{}})
		}},
		c13Msg{Class: "empty", Invalid: true, Desc: "application request without lists", Send: func(w *world.World) { w.SendRawApp(&si.ApplicationRequest{RmID: world.RMID}) }},
		c13Msg{Class: "empty", Invalid: true, Desc: "node request without nodes", Send: func(w *world.World) { w.SendRawNode(&si.NodeRequest{RmID: world.RMID}) }},
		c13Msg{Class: "empty", Invalid: true, Desc: "requests for an unknown RM id", Send: func(w *world.World) {
			w.SendRawAlloc(&si.AllocationRequest{RmID: "nosuch-rm", Allocations: []*si.Allocation{{AllocationKey: "x", ApplicationID: "y", PartitionName: "[nosuch-rm]default", ResourcePerAlloc: ress[0].res}}})
		}},
	)
	return out
}

func boolInt(b bool) int {
	if b {
		return 1
	}
	return 0
}

func (c *c13Ctx) appKnownOr(app string) string {
	if c.m.Apps[app] == "accepted" {
		return app
	}
	return "\x00"
}

func (c *c13Ctx) keyApp(k string) string {
	if ks := c.m.Keys[k]; ks != nil {
		return ks.App
	}
	return ""
}

var c13Full = false

func c13Extra(scn *world.Scenario, path []world.Op, counts map[string]int) (int, map[string]bool, []mc.Violation) {
	distinct := map[string]bool{}
	var viol []mc.Violation
	build := func() (*world.World, *world.Snap) {
		s := *scn
		s.Watchdog = true
		w, err := world.New(&s)
		if err != nil {
			return nil, nil
		}
		for _, o := range path {
			w.Apply(o)
		}
		return w, w.Snapshot()
	}
	w, snap := build()
	if w == nil || snap.Gone {
		if w != nil {
			w.Close()
		}
		return 0, distinct, nil
	}
	ctx := newC13Ctx(scn, w.Model.Clone(), snap)
	msgs := ctx.catalogue(c13Full || len(path) <= 1)
	ledger := c13Ledger(snap)
	evals := 0
	fpSeen := map[string]int{}
	add := func(x mc.Violation) {
		fpSeen[x.FP]++
		if fpSeen[x.FP] <= 2 {
			viol = append(viol, x)
		}
	}
	for _, msg := range msgs {
		evals++
		st := w.Run(world.Op{K: "INJECT", A: msg.Class}, func() { msg.Send(w) })
		if st.Panic != "" || st.Hang != "" {
			kind := "panics"
			if st.Hang != "" {
				kind = "hangs"
			}
			add(v("C13", "request-"+kind, msg.Class+":"+panicSite(st.Panic+st.Hang), "%s %s the core: %s", msg.Desc, kind, firstLine(st.Panic+st.Hang)))
			w.Close()
			w, _ = build()
			if w == nil {
				return evals, distinct, viol
			}
			continue
		}
		after := c13Ledger(w.Snapshot())
		changed := after != ledger
		outcome := "unchanged"
		if changed {
			outcome = "changed"
		}
		rej := ""
		for _, o := range st.Out {
			if o.T == "allocrej" || o.T == "apprej" || o.T == "noderej" {
				rej = o.T
			}
		}
		distinct[msg.Class+"|invalid="+fmt.Sprint(msg.Invalid)+"|"+outcome+"|"+rej] = true
		if msg.Invalid {
			counts["C13.invalid-item"]++
			if changed {
				add(v("C13", "invalid-request-changes-state", msg.Class, "%s is invalid but changed the accounting: %s", msg.Desc, firstDiff(ledger, after)))
			}
			if msg.WantRej != "" {
				counts["C13.rejection-expected"]++
				want := strings.SplitN(msg.WantRej, ":", 2)
				found := false
				for _, o := range st.Out {
					if o.T == want[0] && (o.Key == want[1] || o.App == want[1] || o.Node == want[1]) {
						found = true
					}
				}
				if !found {
					add(v("C13", "invalid-request-not-rejected", msg.Class+"/"+want[0], "%s is invalid but no %s message for %q was sent (outbound: %s)", msg.Desc, want[0], want[1], world.J(st.Out)))
				}
			}
		} else {
			counts["C13.wellformed-or-unjudged-item"]++
			// whatever this harness thinks of the item: the core itself answered it with a rejection, so it must have left
			// the accounting as it was
			if rej != "" && changed && len(st.Out) == 1 {
				counts["C13.rejected-by-the-core"]++
				add(v("C13", "rejected-request-changes-state", msg.Class, "%s was answered with a rejection (%s) but changed the accounting: %s", msg.Desc, world.J(st.Out), firstDiff(ledger, after)))
			}
		}
		if changed {
			w.Close()
			w, _ = build()
			if w == nil {
				return evals, distinct, viol
			}
		}
	}
	w.Close()
	return evals, distinct, viol
}

// panicSite extracts the first frame of the repository from a panic stack (fingerprint).
func panicSite(stack string) string {
	for _, l := range strings.Split(stack, "\n") {
		l = strings.TrimSpace(l)
		if strings.HasPrefix(l, "/repo/pkg/") {
			l = strings.TrimPrefix(l, "/repo/pkg/")
			if i := strings.Index(l, " "); i > 0 {
				l = l[:i]
			}
			if i := strings.LastIndex(l, ":"); i > 0 {
				l = l[:i]
			}
			return l
		}
	}
	return "unknown"
}

func init() {
	for _, base := range []string{"cap-basic-fair", "gang-Soft", "reserve"} {
		def := mc.Scenarios[base]
		if def == nil {
			panic("c13: unknown base scenario " + base)
		}
		s := *def.Scn
		s.Name = "inject-" + base
		mc.Register(&mc.ScenarioDef{Scn: &s, Extra: c13Extra})
	}
	registerCheck(&CheckDef{Prop: "C13", Level: "model_checking", Technique: "exhaustive malformed-message catalogue injected into every state of the explicit-state search of the real core, under recover() and a hang watchdog; ledger comparison before/after",
		Quick:       []Run{{Scenario: "inject-cap-basic-fair", Depth: 3, MapModes: []int{1}, ExtraDepth: 3}, {Scenario: "inject-gang-Soft", Depth: 3, MapModes: []int{1}, ExtraDepth: 3}, {Scenario: "inject-reserve", Depth: 3, MapModes: []int{1}, ExtraDepth: 3}},
		Thorough:    []Run{{Scenario: "inject-cap-basic-fair", Depth: 6, MapModes: []int{1}, ExtraDepth: 6}, {Scenario: "inject-gang-Soft", Depth: 6, MapModes: []int{1}, ExtraDepth: 6}, {Scenario: "inject-reserve", Depth: 6, MapModes: []int{1}, ExtraDepth: 6}},
		QuickBudget: 200 * time.Second, ThoroughBudget: 15 * time.Minute,
		Assumptions: []string{"catalogue: full product of the field domains in the states of depth <= 1, every field over its whole domain (others default) plus pairs with the resource domain in deeper states", "no nil list elements and no nil map values (excluded by the statement)"}})
}
