// Package mc is the explicit-state model checker (engine E1): level-synchronous breadth-first search over the
// real core, successor = replay of the stored shortest path on a fresh instance + one op, deduplication on a hash
// of the canonical state, coordinator + worker processes (process-global singletons forbid goroutine parallelism).
package mc

import (
	"bufio"
	"encoding/json"
	"fmt"
	"io"
	"os"
	"os/exec"
	"runtime"
	"sort"
	"strconv"
	"sync"
	"time"

	"verif/harness/internal/world"
)

// Violation is one failed rule on one transition or state.
type Violation struct {
	Prop   string   `json:"prop"`
	Rule   string   `json:"rule"`
	Detail string   `json:"detail"`
	FP     string   `json:"fp"`            // fingerprint: the shape of the failing input (known-findings key)
	Ctx    []string `json:"ctx,omitempty"` // context tags: rare history events that happened on the failing path
}

// Monitor evaluates rules on one executed transition. counts[rule]++ must be called for every NON-VACUOUS evaluation.
type Monitor interface {
	Name() string
	Step(scn *world.Scenario, pre *world.Snap, st *world.Step, post *world.Snap, counts map[string]int) []Violation
}

// Registry is filled by package props.
type ScenarioDef struct {
	Scn      *world.Scenario
	Monitors []Monitor
	// Extra, when set, is run by the worker on every NEW state (after the transition that reached it):
	// used for the fault-enumeration checks (crash points, malformed catalogue, reload differential).
	Extra func(scn *world.Scenario, path []world.Op, counts map[string]int) (evals int, distinct map[string]bool, viol []Violation)
	// Prepare, when set, runs once per process before the first world of the scenario is built (reference data that
	// itself needs a fresh real core, which must not exist at the same time as the explored one).
	Prepare  func(scn *world.Scenario)
	prepared bool
}

var Scenarios = map[string]*ScenarioDef{}

func Register(d *ScenarioDef) {
	if _, dup := Scenarios[d.Scn.Name]; dup {
		panic("duplicate scenario " + d.Scn.Name)
	}
	Scenarios[d.Scn.Name] = d
}

type item struct {
	ID       int        `json:"id"`
	Scn      string     `json:"scn"`
	Path     []world.Op `json:"path"`
	Hash     string     `json:"hash,omitempty"` // expected hash of the state reached by Path
	Extra    bool       `json:"extra,omitempty"`
	NoExpand bool       `json:"noexp,omitempty"`
}

type succ struct {
	Op    world.Op    `json:"op"`
	Hash  string      `json:"hash"`
	Viol  []Violation `json:"viol,omitempty"`
	Dead  bool        `json:"dead,omitempty"`
	Out   int         `json:"out"`
	Shape string      `json:"shape,omitempty"`
}

type result struct {
	ID            int            `json:"id"`
	Hash          string         `json:"hash"`
	Diverged      string         `json:"diverged,omitempty"`
	Harness       string         `json:"harness,omitempty"`
	Succ          []succ         `json:"succ,omitempty"`
	Counts        map[string]int `json:"counts,omitempty"`
	Steps         int            `json:"steps"`
	ExtraEvals    int            `json:"xe,omitempty"`
	ExtraDistinct []string       `json:"xd,omitempty"`
	ExtraViol     []Violation    `json:"xv,omitempty"`
}

// ---------------------------------------------------------------- worker

func replay(def *ScenarioDef, path []world.Op) (*world.World, error) {
	if def.Prepare != nil && !def.prepared {
		def.prepared = true
		def.Prepare(def.Scn)
	}
	w, err := world.New(def.Scn)
	if err != nil {
		return w, err
	}
	for _, op := range path {
		st := w.Apply(op)
		if st.Panic != "" || st.Hang != "" {
			return w, fmt.Errorf("replay of %s failed at %s: %s%s", world.PathString(path), op, firstLine(st.Panic), firstLine(st.Hang))
		}
	}
	return w, nil
}

func firstLine(s string) string {
	for i, c := range s {
		if c == '\n' {
			return s[:i]
		}
	}
	return s
}

func shapeOf(st *world.Step) string {
	s := st.Op.K + ":"
	for _, o := range st.Out {
		s += o.T
		if o.Term != "" {
			s += "/" + o.Term
		}
		if o.State != "" {
			s += "/" + o.State
		}
		s += ","
	}
	return s
}

func expand(it *item) *result {
	res := &result{ID: it.ID, Counts: map[string]int{}}
	def := Scenarios[it.Scn]
	if def == nil {
		res.Harness = "unknown scenario " + it.Scn
		return res
	}
	w, err := replay(def, it.Path)
	if err != nil {
		res.Harness = err.Error()
		if w != nil {
			w.Close()
		}
		return res
	}
	res.Steps += len(it.Path)
	pre := w.Snapshot()
	res.Hash = world.Hash(pre.Canon())
	if it.Hash != "" && it.Hash != res.Hash {
		res.Diverged = fmt.Sprintf("replay of %s reached state %s, expected %s", world.PathString(it.Path), res.Hash, it.Hash)
		w.Close()
		return res
	}
	if it.Extra && def.Extra != nil {
		w.Close()
		e, d, v := def.Extra(def.Scn, it.Path, res.Counts)
		res.ExtraEvals = e
		for k := range d {
			res.ExtraDistinct = append(res.ExtraDistinct, k)
		}
		res.ExtraViol = v
		if it.NoExpand {
			return res
		}
		w, err = replay(def, it.Path)
		if err != nil {
			res.Harness = err.Error()
			return res
		}
	}
	if it.NoExpand {
		w.Close()
		return res
	}
	ops := w.Enabled()
	for i, op := range ops {
		if i > 0 {
			w, err = replay(def, it.Path)
			if err != nil {
				res.Harness = err.Error()
				if w != nil {
					w.Close()
				}
				return res
			}
			res.Steps += len(it.Path)
		}
		st := w.Apply(op)
		res.Steps++
		sc := succ{Op: op, Out: len(st.Out), Shape: shapeOf(st)}
		if st.Panic != "" || st.Hang != "" {
			sc.Dead = true
			sc.Hash = "dead:" + world.Hash(st.Panic+st.Hang)
			// a panic/hang is handed to the monitors with a nil post state
			for _, m := range def.Monitors {
				sc.Viol = append(sc.Viol, m.Step(def.Scn, pre, st, nil, res.Counts)...)
			}
			if len(sc.Viol) == 0 {
				sc.Viol = append(sc.Viol, Violation{Prop: "HARNESS", Rule: "crash", Detail: firstLine(st.Panic + st.Hang), FP: "crash"})
			}
		} else {
			post := w.Snapshot()
			for _, m := range def.Monitors {
				sc.Viol = append(sc.Viol, m.Step(def.Scn, pre, st, post, res.Counts)...)
			}
			sc.Hash = world.Hash(post.Canon())
		}
		for i := range sc.Viol {
			sc.Viol[i].Ctx = world.ContextTags(w.Mem)
		}
		res.Succ = append(res.Succ, sc)
		w.Close()
	}
	if len(ops) == 0 {
		w.Close()
	}
	return res
}

// WorkerMain serves work items from stdin until EOF.
func WorkerMain() {
	world.InitProcess()
	in := bufio.NewReaderSize(os.Stdin, 1<<20)
	out := bufio.NewWriterSize(os.Stdout, 1<<20)
	dec := json.NewDecoder(in)
	enc := json.NewEncoder(out)
	for {
		var it item
		if err := dec.Decode(&it); err != nil {
			return
		}
		res := expand(&it)
		if err := enc.Encode(res); err != nil {
			return
		}
		out.Flush()
	}
}

// ---------------------------------------------------------------- coordinator

type Config struct {
	Scenario    string
	Depth       int
	MaxStates   int
	Workers     int
	MapMode     int
	Budget      time.Duration // wall clock budget; expiry => exhaustive:false, never a failure
	ExtraDepth  int           // run def.Extra on every state up to this depth (-1: never)
	StopAtFirst bool
}

type Found struct {
	Scenario string      `json:"scenario"`
	MapMode  int         `json:"mapMode"`
	Path     []world.Op  `json:"path"`
	Viol     Violation   `json:"violation"`
	Custom   interface{} `json:"custom,omitempty"` // failing input of a non-E1 check
}

type Report struct {
	Scenario        string         `json:"scenario"`
	MapMode         int            `json:"mapMode"`
	Depth           int            `json:"depth"`
	DepthDone       int            `json:"depthCompleted"`
	States          int            `json:"states"`
	Transitions     int            `json:"transitions"`
	Steps           int            `json:"steps"`
	PerLevel        []int          `json:"statesPerLevel"`
	Exhaustive      bool           `json:"exhaustive"`
	CapHit          string         `json:"capHit,omitempty"`
	Counts          map[string]int `json:"ruleEvaluations"`
	Shapes          int            `json:"distinctOutboundShapes"`
	Found           []Found        `json:"-"`
	Harness         []string       `json:"harnessErrors,omitempty"`
	Samples         []string       `json:"samples"`
	ReplaysVerified int            `json:"replaysVerified"`
	ExtraEvals      int            `json:"extraEvaluations,omitempty"`
	ExtraDistinct   int            `json:"extraDistinct,omitempty"`
	WallS           float64        `json:"wallS"`
}

type workerProc struct {
	cmd *exec.Cmd
	in  io.WriteCloser
	enc *json.Encoder
	dec *json.Decoder
}

func startWorker(mapMode int) (*workerProc, error) {
	cmd := exec.Command("/proc/self/exe", "worker")
	cmd.Env = append(os.Environ(), "VERIF_MAPMODE="+strconv.Itoa(mapMode), "GOMAXPROCS=1")
	cmd.Stderr = os.Stderr
	in, err := cmd.StdinPipe()
	if err != nil {
		return nil, err
	}
	outp, err := cmd.StdoutPipe()
	if err != nil {
		return nil, err
	}
	if err := cmd.Start(); err != nil {
		return nil, err
	}
	return &workerProc{cmd: cmd, in: in, enc: json.NewEncoder(in), dec: json.NewDecoder(bufio.NewReaderSize(outp, 1<<20))}, nil
}

func (wp *workerProc) stop() {
	wp.in.Close()
	done := make(chan struct{})
	go func() { _ = wp.cmd.Wait(); close(done) }()
	select {
	case <-done:
	case <-time.After(3 * time.Second):
		_ = wp.cmd.Process.Kill()
	}
}

// Explore runs the bounded BFS of one scenario under one map mode.
func Explore(cfg Config) *Report {
	start := time.Now()
	rep := &Report{Scenario: cfg.Scenario, MapMode: cfg.MapMode, Depth: cfg.Depth, Counts: map[string]int{}, Exhaustive: true}
	def := Scenarios[cfg.Scenario]
	if def == nil {
		rep.Harness = append(rep.Harness, "unknown scenario "+cfg.Scenario)
		rep.Exhaustive = false
		return rep
	}
	if cfg.Workers <= 0 {
		cfg.Workers = runtime.NumCPU() / 2
		if cfg.Workers < 1 {
			cfg.Workers = 1
		}
	}
	if cfg.MaxStates <= 0 {
		cfg.MaxStates = 1 << 30
	}
	seen := map[string]bool{}
	shapes := map[string]bool{}
	extraDistinct := map[string]bool{}
	var mu sync.Mutex
	frontier := []item{{Scn: cfg.Scenario, Path: nil}}
	first := true
	deadline := time.Time{}
	if cfg.Budget > 0 {
		deadline = start.Add(cfg.Budget)
	}
	sampleEvery := 1
	for depth := 0; len(frontier) > 0; depth++ {
		expandThis := depth < cfg.Depth
		extraThis := cfg.ExtraDepth >= depth
		if !expandThis && !extraThis {
			break
		}
		for i := range frontier {
			frontier[i].Extra = extraThis
			frontier[i].NoExpand = !expandThis
		}
		next := []item{}
		work := make(chan item, len(frontier))
		for i := range frontier {
			frontier[i].ID = i
			work <- frontier[i]
		}
		close(work)
		results := make(chan *result, 256)
		var wg sync.WaitGroup
		aborted := false
		nw := cfg.Workers
		if nw > len(frontier) {
			nw = len(frontier)
		}
		for wi := 0; wi < nw; wi++ {
			wg.Add(1)
			go func() {
				defer wg.Done()
				wp, err := startWorker(cfg.MapMode)
				if err != nil {
					results <- &result{ID: -1, Harness: "cannot start worker: " + err.Error()}
					return
				}
				defer func() { wp.stop() }()
				for it := range work {
					mu.Lock()
					ab := aborted
					mu.Unlock()
					if ab {
						continue
					}
					if err := wp.enc.Encode(&it); err != nil {
						results <- &result{ID: it.ID, Harness: "worker write failed: " + err.Error()}
						return
					}
					var res result
					done := make(chan error, 1)
					go func() { done <- wp.dec.Decode(&res) }()
					select {
					case err := <-done:
						if err != nil {
							results <- &result{ID: it.ID, Harness: fmt.Sprintf("worker died on path %s: %v", world.PathString(it.Path), err)}
							wp.stop()
							wp, err = startWorker(cfg.MapMode)
							if err != nil {
								return
							}
							continue
						}
					case <-time.After(10 * time.Minute):
						results <- &result{ID: it.ID, Harness: "worker watchdog (10 min) on path " + world.PathString(it.Path)}
						_ = wp.cmd.Process.Kill()
						wp, err = startWorker(cfg.MapMode)
						if err != nil {
							return
						}
						continue
					}
					results <- &res
				}
			}()
		}
		go func() { wg.Wait(); close(results) }()
		levelNew := 0
		collected := make([]*result, 0, len(frontier))
		for res := range results {
			collected = append(collected, res)
			if !deadline.IsZero() && time.Now().After(deadline) {
				mu.Lock()
				if !aborted {
					aborted = true
					rep.CapHit = fmt.Sprintf("time budget %s reached at depth %d", cfg.Budget, depth)
					rep.Exhaustive = false
				}
				mu.Unlock()
			}
		}
		// deterministic processing order: by item id
		sort.Slice(collected, func(i, j int) bool { return collected[i].ID < collected[j].ID })
		for _, res := range collected {
			if res.Harness != "" {
				rep.Harness = append(rep.Harness, res.Harness)
				rep.Exhaustive = false
				continue
			}
			if res.Diverged != "" {
				rep.Harness = append(rep.Harness, "nondeterministic replay: "+res.Diverged)
				rep.Exhaustive = false
				continue
			}
			it := frontier[res.ID]
			if first {
				seen[res.Hash] = true
				rep.PerLevel = append(rep.PerLevel, 1)
				first = false
			}
			if it.Hash != "" {
				rep.ReplaysVerified++
			}
			rep.Steps += res.Steps
			for k, v := range res.Counts {
				rep.Counts[k] += v
			}
			rep.ExtraEvals += res.ExtraEvals
			for _, k := range res.ExtraDistinct {
				extraDistinct[k] = true
			}
			for _, v := range res.ExtraViol {
				rep.Found = append(rep.Found, Found{Scenario: cfg.Scenario, MapMode: cfg.MapMode, Path: it.Path, Viol: v})
			}
			for _, sc := range res.Succ {
				rep.Transitions++
				shapes[sc.Shape] = true
				path := append(append([]world.Op{}, it.Path...), sc.Op)
				if len(sc.Viol) > 0 {
					for _, v := range sc.Viol {
						rep.Found = append(rep.Found, Found{Scenario: cfg.Scenario, MapMode: cfg.MapMode, Path: path, Viol: v})
					}
					continue // a violating transition is not expanded further
				}
				if sc.Dead || seen[sc.Hash] {
					continue
				}
				if len(seen) >= cfg.MaxStates {
					if rep.CapHit == "" {
						rep.CapHit = fmt.Sprintf("state cap %d reached at depth %d", cfg.MaxStates, depth+1)
					}
					rep.Exhaustive = false
					continue
				}
				seen[sc.Hash] = true
				levelNew++
				if len(rep.Samples) < 6 && levelNew%sampleEvery == 0 {
					rep.Samples = append(rep.Samples, world.PathString(path))
					sampleEvery *= 7
				}
				next = append(next, item{Scn: cfg.Scenario, Path: path, Hash: sc.Hash})
			}
		}
		mu.Lock()
		ab := aborted
		mu.Unlock()
		if ab {
			break
		}
		if expandThis {
			rep.PerLevel = append(rep.PerLevel, levelNew)
			rep.DepthDone = depth + 1
		}
		if cfg.StopAtFirst && len(rep.Found) > 0 {
			rep.Exhaustive = false
			rep.CapHit = "stopped at first violation"
			break
		}
		frontier = next
	}
	rep.States = len(seen)
	rep.Shapes = len(shapes)
	rep.ExtraDistinct = len(extraDistinct)
	rep.WallS = time.Since(start).Seconds()
	if len(rep.Harness) > 8 {
		rep.Harness = append(rep.Harness[:8], fmt.Sprintf("... and %d more", len(rep.Harness)-8))
	}
	return rep
}

// ReplayPath re-runs one stored path without the explorer and returns the trace and the violations of the last step.
func ReplayPath(scn string, path []world.Op) ([]world.Step, []Violation, error) {
	def := Scenarios[scn]
	if def == nil {
		return nil, nil, fmt.Errorf("unknown scenario %s", scn)
	}
	if def.Prepare != nil && !def.prepared {
		def.prepared = true
		def.Prepare(def.Scn)
	}
	w, err := world.New(def.Scn)
	if err != nil {
		return nil, nil, err
	}
	defer w.Close()
	var viol []Violation
	counts := map[string]int{}
	for _, op := range path {
		pre := w.Snapshot()
		st := w.Apply(op)
		var post *world.Snap
		if st.Panic == "" && st.Hang == "" {
			post = w.Snapshot()
		}
		viol = nil
		for _, m := range def.Monitors {
			viol = append(viol, m.Step(def.Scn, pre, st, post, counts)...)
		}
		for i := range viol {
			viol[i].Ctx = world.ContextTags(w.Mem)
		}
		if post == nil {
			break
		}
	}
	return w.Trace, viol, nil
}
